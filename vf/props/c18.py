"""C18 - split partitions its input, lazily, evaluating each element once.

Model-based check over consumption histories.  A case is
  {'src': {'kind': 'list'|'range'|'iter'|'reiterable', 'elems': [...indices into VALUES...]},
   'cond': {'kind': 'pure'|'stateful'|'list'|'iter'|'cycle', 'vals': [...indices into CONDV...]},
   'word': ['T','F','DT','DF','AT','AF', ...], 'end': 'drain'|'stop'}
and the oracle is the reference partition computed from (source, condition
values in source order).
"""
import itertools

from hypothesis import strategies as st

from vf.runner import Result, V

ID = 'C18'
LEVEL = 'exploration'
TECHNIQUE = ('model-based property testing (Hypothesis) over consumption histories of the two result iterators, '
             'plus bounded-exhaustive enumeration (itertools.product) in the thorough tier; reference partition model, '
             'predicate-call and source-pull logs')
RULE = ('cases: source of length 0-7 (list / range / one-shot iterator / re-iterable) x condition (pure callable, '
        'call-count-stateful callable, list or one-shot iterator shorter/equal/longer than the source, infinite cycle; '
        'truthy/falsy non-bool values) x a word of next/drain/abandon operations on the two result iterators; '
        'non-trivial: both iterators advanced with >=1 element each in an interleaved order (not all of one then all of the other); '
        'distinct by case hash')
ASSUMPTIONS = ['condition callables are deterministic functions of (element, call index) as the quantifier states',
               'elements are compared by identity with the source elements']
BUDGET = {'quick': 600, 'thorough': 6000}
ESSENTIAL = ['nontrivial']
ENUM_EXHAUSTIVE = {'thorough': 'all sources of length 0-4 of distinct elements (list and one-shot iterator) x all truth '
                               'assignments x condition kinds {pure, stateful, iter} x all T/F words of length n+1'}

VALUES = [0, 1, 2, 'a', None]
RAWVALUES = [0, 1, 1, 'a', 'a']       # few distinct values: repeats are the point
CONDV = [True, False, 1, 0, 'x', '', None, 2.5, (), (0,)]


class Elem:
    """Distinct wrapper so identity and order are observable; value is kept for pure predicates."""
    __slots__ = ('i', 'v')

    def __init__(self, i, v):
        self.i, self.v = i, v

    def __repr__(self):
        return f'e{self.i}({self.v!r})'


class Runaway(Exception):
    pass


class LogIter:
    def __init__(self, items, log, budget=None, tag='src'):
        self.it = iter(items)
        self.log = log
        self.budget = budget
        self.tag = tag
        self.n = 0

    def __iter__(self):
        return self

    def __next__(self):
        self.n += 1
        if self.budget is not None and self.n > self.budget:
            raise Runaway(self.tag)
        x = next(self.it)      # StopIteration = end-of-stream poll, not logged
        self.log.append(x)
        return x


class ReIterable:
    def __init__(self, items, log, iters):
        self.items, self.log, self.iters = items, log, iters

    def __iter__(self):
        self.iters.append(1)
        return LogIter(self.items, self.log)


def _sized(elem, lo, hi):
    return st.integers(lo, hi).flatmap(lambda n: st.lists(elem, min_size=n, max_size=n))


def strategy(tier):
    src = st.fixed_dictionaries({
        'kind': st.sampled_from(['list', 'range', 'iter', 'iter', 'reiterable', 'rawlist', 'rawiter', 'gen', 'gen']),
        'elems': _sized(st.integers(0, len(VALUES) - 1), 0, 7)})
    cond = st.fixed_dictionaries({
        'kind': st.sampled_from(['pure', 'stateful', 'list', 'iter', 'cycle', 'gen']),
        'vals': _sized(st.integers(0, len(CONDV) - 1), 0, 9)})
    word = _sized(st.sampled_from(['T', 'F', 'T', 'F', 'T', 'F', 'T', 'F', 'DT', 'DF', 'AT', 'AF']), 0, 14)
    return st.fixed_dictionaries({'src': src, 'cond': cond, 'word': word,
                                  'end': st.sampled_from(['drain', 'drain', 'stop'])})


def valid(case):
    try:
        return (case['src']['kind'] in ('list', 'range', 'iter', 'reiterable', 'rawlist', 'rawiter', 'gen')
                and all(0 <= i < len(VALUES) for i in case['src']['elems'])
                and case['cond']['kind'] in ('pure', 'stateful', 'list', 'iter', 'cycle', 'gen')
                and all(0 <= i < len(CONDV) for i in case['cond']['vals'])
                and all(w in ('T', 'F', 'DT', 'DF', 'AT', 'AF') for w in case['word'])
                and case['end'] in ('drain', 'stop'))
    except (KeyError, TypeError):
        return False


def enumerate_cases(tier):
    if tier != 'thorough':
        return
    for n in range(0, 5):
        for skind in ('list', 'iter'):
            for ckind in ('pure', 'stateful', 'iter'):
                for truth in itertools.product((0, 1), repeat=n):
                    for word in itertools.product('TF', repeat=n + 1):
                        yield {'src': {'kind': skind, 'elems': [i % len(VALUES) for i in range(n)]},
                               'cond': {'kind': ckind, 'vals': list(truth), 'distinct': True},
                               'word': list(word), 'end': 'drain'}


def run_case(case):
    from aiuti.itertools import split, exhaust
    viol = []
    sk, ck = case['src']['kind'], case['cond']['kind']
    n_src = len(case['src']['elems'])
    raw = sk in ('rawlist', 'rawiter')
    if sk == 'range':
        elems = list(range(n_src))
    elif raw:
        # the values themselves, so equal / hash-equal elements repeat (0, 0, 'a', 'a', 1 ...)
        elems = [RAWVALUES[v % len(RAWVALUES)] for v in case['src']['elems']]
    else:
        elems = [Elem(i, VALUES[v]) for i, v in enumerate(case['src']['elems'])]
    cvals = [CONDV[v] for v in case['cond']['vals']]
    pulls, iters, pred_log = [], [], []
    if sk in ('list', 'rawlist'):
        source = list(elems)
    elif sk == 'rawiter':
        source = LogIter(elems, pulls)
    elif sk == 'range':
        source = range(n_src)
    elif sk == 'iter':
        source = LogIter(elems, pulls)
    elif sk == 'gen':
        # a generator object: one-shot like 'iter', but it can be closed (and is finalised when dropped)
        def _gen():
            for e in elems:
                pulls.append(e)
                yield e
        source = _gen()
    else:
        source = ReIterable(elems, pulls, iters)

    # condition and its model values, in source order
    if ck == 'pure':
        if case['cond'].get('distinct'):
            table = {i: (cvals[i] if i < len(cvals) else False) for i in range(n_src)}
            keyf = (lambda x: x if sk == 'range' else x.i)
            if raw:
                raise ValueError('distinct-element enumeration does not use raw sources')
        else:
            # a pure function of the element's value
            def _vkey(x):
                return repr(x if (sk == 'range' or raw) else x.v)
            tbl = {}
            for i, e in enumerate(elems):
                tbl.setdefault(_vkey(e), cvals[len(tbl) % len(cvals)] if cvals else None)
            table, keyf = tbl, _vkey

        def condition(x):
            pred_log.append(x)
            return table[keyf(x)]
        model_c = [table[keyf(e)] for e in elems]
        n = n_src
    elif ck == 'stateful':
        def condition(x):
            pred_log.append(x)
            k = len(pred_log) - 1
            return cvals[k % len(cvals)] if cvals else ''
        model_c = [(cvals[k % len(cvals)] if cvals else '') for k in range(n_src)]
        n = n_src
    elif ck == 'list':
        condition = list(cvals)
        model_c = cvals[:n_src]
        n = min(n_src, len(cvals))
    elif ck == 'iter':
        condition = LogIter(cvals, [], tag='cond')
        model_c = cvals[:n_src]
        n = min(n_src, len(cvals))
    elif ck == 'gen':
        condition = (c for c in list(cvals))
        model_c = cvals[:n_src]
        n = min(n_src, len(cvals))
    else:
        base = cvals or [True, False]
        condition = LogIter(itertools.cycle(base), [], budget=10 * n_src + 40, tag='cond-cycle')
        model_c = [base[k % len(base)] for k in range(n_src)]
        n = n_src
    model_t = [e for e, c in zip(elems[:n], model_c) if c]
    model_f = [e for e, c in zip(elems[:n], model_c) if not c]

    try:
        it_t, it_f = split(source, condition)
    except Runaway as e:
        return Result([V('runaway', f'split() itself consumed an unbounded condition ({e})')], False, [], None)
    if pulls or pred_log:
        viol.append(V('eager', f'split() itself pulled {len(pulls)} source elements / evaluated the predicate {len(pred_log)} times'))
    its = {'T': it_t, 'F': it_f}
    del it_t, it_f
    models = {'T': model_t, 'F': model_f}
    pos = {'T': 0, 'F': 0}
    got_order = []

    def step(side):
        it = its.get(side)
        if it is None:
            return False
        try:
            x = next(it)
        except StopIteration:
            if pos[side] < len(models[side]):
                viol.append(V('early-stop', f'{side}-iterator stopped after {pos[side]} elements, model has {models[side]!r}'))
            return False
        except Runaway as e:
            viol.append(V('runaway', f'unbounded consumption of the condition ({e})'))
            its[side] = None
            return False
        exp = models[side][pos[side]] if pos[side] < len(models[side]) else '<nothing>'
        if x is not exp and not ((sk == 'range' or raw) and type(x) is type(exp) and x == exp):
            viol.append(V('wrong-element', f'{side}-iterator yielded {x!r} at position {pos[side]}, model expects {exp!r} '
                          f'(model true={model_t!r} false={model_f!r})'))
        pos[side] += 1
        got_order.append(side)
        return True

    def check_logs(final=False):
        # predicate: each element at most once, in source order (prefix)
        if ck in ('pure', 'stateful'):
            exp_prefix = elems[:len(pred_log)]
            same = len(pred_log) <= n_src and all(
                (a is b) or ((sk == 'range' or raw) and type(a) is type(b) and a == b) for a, b in zip(pred_log, exp_prefix))
            if not same:
                viol.append(V('predicate-log', f'predicate evaluated on {pred_log!r}; expected a duplicate-free prefix of {elems!r}'))
            if final and len(pred_log) != n_src:
                viol.append(V('predicate-log', f'after draining both iterators the predicate was evaluated '
                              f'{len(pred_log)} times for {n_src} elements', 'predicate-count'))
        if sk in ('iter', 'reiterable', 'rawiter', 'gen'):
            if len(pulls) > n_src or any(a is not b for a, b in zip(pulls, elems)):
                viol.append(V('source-pulls', f'source delivered {pulls!r}; expected each of {elems!r} at most once, in order'))
            if sk == 'reiterable' and len(iters) > 1:
                viol.append(V('source-pulls', f'iter() was called {len(iters)} times on the source', 'source-reiterated'))

    for w in case['word']:
        if w in ('T', 'F'):
            step(w)
        elif w in ('DT', 'DF'):
            guard = 0
            while step(w[1]) and guard < 50:
                guard += 1
        else:
            its[w[1]] = None
        check_logs()
        if viol:
            break
    if case['end'] == 'drain' and not viol:
        for side in ('T', 'F'):
            guard = 0
            while step(side) and guard < 50:
                guard += 1
        check_logs(final=all(its[s] is not None for s in 'TF') or n_src == 0)
        for side in ('T', 'F'):
            if its[side] is not None and pos[side] != len(models[side]):
                viol.append(V('count', f'{side}-iterator yielded {pos[side]} elements, model has {len(models[side])}'))

    # exhaust(): consumes everything, returns None
    seen = []
    src2 = LogIter(list(elems), seen)
    r = exhaust(src2)
    if r is not None or len(seen) != len(elems) or next(src2, 'END') != 'END':
        viol.append(V('exhaust', f'exhaust returned {r!r} after consuming {len(seen)} of {len(elems)}'))
    sides = ''.join(got_order)
    nontrivial = ('TF' in sides and 'FT' in sides) or (sides.count('T') >= 1 and sides.count('F') >= 1
                                                       and sides not in ('T' * sides.count('T') + 'F' * sides.count('F'),
                                                                         'F' * sides.count('F') + 'T' * sides.count('T')))
    classes = ['src=' + sk, 'cond=' + ck]
    if raw and len(set(map(repr, elems))) < len(elems):
        classes.append('repeated-equal-elements')
    if nontrivial:
        classes.append('nontrivial')
    if ck in ('list', 'iter', 'gen') and len(cvals) != n_src:
        classes.append('length-mismatch')
    if any(w[0] == 'A' for w in case['word']):
        classes.append('abandon')
    summary = {'true': repr(model_t), 'false': repr(model_f), 'consumption': sides,
               'predicate_calls': len(pred_log), 'source_pulls': len(pulls)}
    return Result(viol, nontrivial, classes, summary)
