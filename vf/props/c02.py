"""C02 - FileLock gives mutual exclusion across threads, objects and processes."""
import functools

from hypothesis import strategies as st

from vf.harness import flthreads as H, procs as P
from vf.runner import Result, V
from vf.sim.kernel import HarnessError
from vf.sim.world import thread_exc_violations
from vf.sim.schedules import schedule_strategy, schedule_valid

ID = 'C02'
LEVEL = 'exploration'
TECHNIQUE = ('property-based testing (Hypothesis) of acquire/critical-section/release rounds of 2-4 threads over 1-2 FileLock '
             'objects under generated schedules in the simulation kernel (real flock underneath, harness-owned occupancy counter), '
             'plus free-running contention of real forked processes with an O_EXCL marker and a non-atomic counter file')
RULE = ('cases (threads): 2-4 threads x 1-2 FileLock objects (reentrant or not, constructor timeout -1 or 0.1) on one real lock file, '
        '1-3 rounds each via acquire() / acquire(False) / acquire(timeout) / acquire_ctx() / with, reentrant nesting depth 1-2, '
        'critical-section durations 0 / 0.05 / 0.2 virtual seconds, schedules none/sparse/line/pct/walk at source-line granularity of '
        'aiuti/filelock.py; oracle: occupancy <= 1 whenever a holder whose acquire reported success is inside. '
        'cases (processes): 2-16 forked processes x 10-300 rounds; oracle: O_EXCL never fails inside the section and the counter '
        'file equals the number of completed sections. non-trivial: two contenders\' acquire attempts overlap in kernel steps / '
        '>=2 processes completed a section with total waiting time > 0; distinct by case hash')
ASSUMPTIONS = ['same-thread blocking re-acquire of a non-reentrant lock is not generated (deadlocks like threading.Lock)',
               'the multi-process runs sample OS schedules (sound oracle, coverage by luck); Linux flock only',
               'cooperative shims faithful (selftest)']
CORPUS_PREEMPTIONS = {'stalls': [0.02, 0.06, 0.11, 0.5]}
BUDGET = {'quick': 200, 'thorough': 6000}
ESSENTIAL = ['nontrivial', 'two-objects', 'failed-attempt']


@functools.lru_cache(None)
def executed_lines():
    case = {'objs': [{'reentrant': True, 'timeout': -1}, {'reentrant': False, 'timeout': 0.1}],
            'threads': [[{'obj': 0, 'how': 'with', 'nest': 2, 'cs': 0.2}, {'obj': 1, 'how': 'timed', 'nest': 1, 'cs': 0}],
                        [{'obj': 1, 'how': 'ctx-timed', 'nest': 1, 'cs': 0.05}, {'obj': 0, 'how': 'nb', 'nest': 1, 'cs': 0}],
                        [{'obj': 0, 'how': 'acquire', 'nest': 1, 'cs': 0.05}]],
            'sched': {'mode': 'none'}}
    lines = set(H.run(case)['lines'])
    lines |= H.run(dict(case, sched={'mode': 'pct', 'prio': [2, 0, 1, 3, 4, 5, 6, 7], 'cps': [20, 60]}))['lines']
    return [[f, l] for f, l in sorted(lines)]


@st.composite
def _program(draw):
    nobj = draw(st.integers(1, 2))
    objs = [{'reentrant': draw(st.booleans()), 'timeout': draw(st.sampled_from([-1, -1, 0.1])),
             'path': draw(st.sampled_from(['str', 'str', 'pathlib', 'direntry']))} for _ in range(nobj)]
    threads = []
    for _ in range(draw(st.integers(2, 4))):
        rounds = []
        for _ in range(draw(st.integers(1, 3))):
            rounds.append({'obj': draw(st.integers(0, nobj - 1)),
                           'how': draw(st.sampled_from(['acquire', 'nb', 'timed', 'ctx', 'ctx-timed', 'with'])),
                           'nest': draw(st.sampled_from([1, 1, 2])), 'cs': draw(st.sampled_from([0, 0.05, 0.2]))})
        threads.append(rounds)
    return {'objs': objs, 'threads': threads}


def strategy(tier):
    sched = schedule_strategy(max_decision=400, lines=executed_lines(), nthreads=4, walk_len=250,
                              modes=('sparse', 'line', 'pct', 'walk', 'none', 'stall', 'stall'))
    return st.builds(lambda p, s: dict(p, sched=s), _program(), sched)


def valid(case):
    try:
        if not (1 <= len(case['objs']) <= 2) or not case['threads'] or not schedule_valid(case['sched']):
            return False
        for o in case['objs']:
            if o['timeout'] not in (-1, 0.1) or not isinstance(o['reentrant'], bool) or \
                    o.get('path', 'str') not in ('str', 'pathlib', 'direntry'):
                return False
        for t in case['threads']:
            for r in t:
                if r['how'] not in ('acquire', 'nb', 'timed', 'ctx', 'ctx-timed', 'with') or r['cs'] < 0 or r['nest'] not in (1, 2):
                    return False
                if not (0 <= r['obj'] < len(case['objs'])):
                    return False
        return True
    except (KeyError, TypeError):
        return False


def run_case(case):
    if 'procs' in case:
        return run_procs(case)
    hist = H.run(case)
    died, harness = thread_exc_violations(hist['thread_excs'], V)
    if harness:
        raise HarnessError('thread exception in FileLock harness: %r' % harness)
    viol = list(died)
    for e in hist['events']:
        if e[0] == 'enter' and e[5] > 1:
            viol.append(V('overlap', f"thread T{e[1]} round {e[2]} entered the protected section at step {e[3]} while "
                          f"{e[5] - 1} other holder(s) were inside; attempts={hist['attempts']}", 'overlap'))
            break
    if hist['stop'] != 'finished':
        viol.append(V('hang', f"run ended in {hist['stop']}", 'hang'))
    elif hist['still_locked'] or hist['open_fds']:
        viol.append(V('residue', f"after all rounds objects {hist['still_locked']} still locked, {hist['open_fds']} descriptors open",
                      'residue'))
    att = hist['attempts']
    overlap = any(a[0] != b[0] and a[2] <= b[2] <= a[3] for a in att for b in att)
    cl = ['sched=' + case['sched']['mode']]
    if overlap:
        cl.append('nontrivial')
    if len(case['objs']) == 2:
        cl.append('two-objects')
    if any(not a[4] for a in att):
        cl.append('failed-attempt')
    if any(o['reentrant'] for o in case['objs']):
        cl.append('reentrant')
    return Result(viol, overlap, cl, H.abbreviate(hist), {'steps': hist['steps'], 'decisions': hist['decisions']})


def run_procs(case):
    r = P.run_contention(case['procs'], case['rounds'], case['hows'])
    viol = []
    if r['clashes']:
        viol.append(V('process-overlap', f"{r['clashes']} O_EXCL/unlink clashes inside the protected section among {case['procs']} processes",
                      'process-overlap'))
    if r['counter'] != r['total_done']:
        viol.append(V('lost-update', f"counter file says {r['counter']}, processes completed {r['total_done']} sections",
                      'process-lost-update'))
    if any(s != 0 for s in r['status']):
        viol.append(V('process-failed', f"contender exit statuses {r['status']}", 'process-failed'))
    done = [p['done'] for p in r['per_process'] if p]
    nt = sum(1 for d in done if d >= 1) >= 2 and r['waited'] > 0
    cl = ['processes', 'procs=%d' % case['procs']] + (['nontrivial'] if nt else [])
    return Result(viol, nt, cl, {'counter': r['counter'], 'sections': r['total_done'], 'per_process_done': done,
                                 'total_wait_s': round(r['waited'], 3)}, {'process_sections': r['total_done']})


def extra(tier, seed_, col):
    plans = [(2, 30), (4, 30), (8, 20)] if tier == 'quick' else [(2, 300), (4, 300), (8, 300), (16, 300), (16, 300)]
    hows_sets = [['acquire', 'timed', 'ctx', 'with', 'nb'], ['acquire', 'with'], ['timed', 'nb', 'ctx']]
    for k, (n, rounds) in enumerate(plans):
        case = {'procs': n, 'rounds': rounds, 'hows': hows_sets[(k + seed_) % len(hows_sets)], 'run': k}
        col.add(case, run_procs(case))
