"""C01 - see DESIGN.md section 3 and vf/props/cache_oracles.py (oracle c01)."""
from vf.harness import cache as H
from vf.props import cache_common as G, cache_oracles as O
from vf.runner import Result, V
from vf.sim.kernel import HarnessError
from vf.sim.world import thread_exc_violations

ID = 'C01'
LEVEL = 'exploration'
ENGINE = 'vf'
TECHNIQUE = ('property-based testing (Hypothesis) of generated multi-loop programs x generated schedules '
             '(sparse/line-targeted/PCT/walk) under a deterministic simulation kernel; history-invariant oracle')
ASSUMPTIONS = ['cooperative shims (Lock, ThreadPoolExecutor, virtual-time loop) are faithful to the real primitives (vf/selftest)',
               'interleavings explored at source-line granularity of aiuti/asyncio.py and asyncio/runners.py',
               'wrapped function never swallows cancellation; loops are not restarted with a call pending except by asyncio.run shutdown']
CORPUS_PREEMPTIONS = {'stalls': [0.3, 3.0]}
BUDGET = {'quick': 250, 'thorough': 5000}
valid = G.valid
simplify = G.simplify
RULE = ('cases: 2-4 threads each running its own event loop (asyncio.run or run_until_complete+close) with 1-3 timed callers '
        'per thread of a threadsafe_async_cache function, per-invocation durations/outcomes, caller cancels/timeouts, '
        'main returning/stopping with calls pending; schedule from {none, sparse, line, pct, walk}. '
        'non-trivial: >=2 callers of one key on >=2 different loops and a caller arrived while another loop\'s invocation '
        'of its key was open, or an invocation entered while an earlier one was still open (take-over); distinct by case hash')
ESSENTIAL = ['cross-loop-wait', 'take-over', 'zero-duration', 'left-pending']


ENUM_EXHAUSTIVE = {'quick': 'every single-preemption schedule (decision index x target thread) of the canonical small programs in cache_common.canonical_programs',
                   'thorough': 'every single-preemption schedule of the canonical small programs'}


def enumerate_cases(tier, shard=0, nshards=1):
    return G.single_preemption_cases('c01', shard, nshards)


def strategy(tier):
    return G.case_strategy('c01')


def run_case(case):
    hist = H.run(case)
    died, harness = thread_exc_violations(hist['thread_excs'], V)
    if harness:
        raise HarnessError('thread exception in cache harness: %r' % harness)
    viol = O.c01(case, hist) + died
    cl = G.structure(case, hist)
    nt = 'multi-loop-key' in cl and ('cross-loop-wait' in cl or 'take-over' in cl)
    if hist['stop'] == 'inconclusive':
        cl.append('inconclusive')
    return Result(viol, nt, cl, H.abbreviate(hist), {'steps': hist['steps'], 'decisions': hist['decisions']})
