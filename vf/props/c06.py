"""C06 - see DESIGN.md section 3 and vf/props/cache_oracles.py (oracle c06)."""
from vf.harness import cache as H
from vf.props import cache_common as G, cache_oracles as O
from vf.runner import Result, V
from vf.sim.kernel import HarnessError
from vf.sim.world import thread_exc_violations

ID = 'C06'
LEVEL = 'exploration'
ENGINE = 'vf'
TECHNIQUE = ('property-based testing (Hypothesis) of generated multi-loop programs x generated schedules '
             '(sparse/line-targeted/PCT/walk) under a deterministic simulation kernel; history-invariant oracle')
ASSUMPTIONS = ['cooperative shims (Lock, ThreadPoolExecutor, virtual-time loop) are faithful to the real primitives (vf/selftest)',
               'interleavings explored at source-line granularity of aiuti/asyncio.py and asyncio/runners.py',
               'wrapped function never swallows cancellation; loops are not restarted with a call pending except by asyncio.run shutdown']
CORPUS_PREEMPTIONS = {}
BUDGET = {'quick': 250, 'thorough': 5000}
valid = G.valid
simplify = G.simplify
RULE = ('cases: as C05 with every subset of invocations failing (exceptions tagged with the invocation) and callers '
        'cancelled/timed out at grid instants, loops shut down while hosting computations or proxy waits; oracle: each caller ends '
        'with the value, an exception raised by an invocation it performed itself (identity), or a cancellation that was requested for '
        'its own task / its own loop shutdown; values come from a successful invocation. '
        'non-trivial: >=1 failure, cancellation or loop shutdown overlapping another caller\'s wait; distinct by case hash')
ESSENTIAL = ['cross-loop-wait', 'left-pending', 'inv-failed', 'caller-cancelled']


ENUM_EXHAUSTIVE = {'quick': 'every single-preemption schedule (decision index x target thread) of the canonical small programs in cache_common.canonical_programs',
                   'thorough': 'every single-preemption schedule of the canonical small programs'}


def enumerate_cases(tier, shard=0, nshards=1):
    return G.single_preemption_cases('c06', shard, nshards)


def strategy(tier):
    return G.case_strategy('c06')


def run_case(case):
    hist = H.run(case)
    died, harness = thread_exc_violations(hist['thread_excs'], V)
    if harness:
        raise HarnessError('thread exception in cache harness: %r' % harness)
    # "never ... delays any other caller beyond a recomputation": the stall accounting of C05 applies here too
    viol = O.c06(case, hist) + O.value_provenance(case, hist) + died \
        + [v for v in O.c05(case, hist) if v['kind'] == 'stall']
    cl = G.structure(case, hist)
    nt = ('inv-failed' in cl or 'inv-cancelled' in cl or 'caller-cancelled' in cl or 'left-pending' in cl) \
        and ('cross-loop-wait' in cl or 'take-over' in cl)
    return Result(viol, nt, cl, H.abbreviate(hist), {'steps': hist['steps'], 'decisions': hist['decisions']})
