"""C03 - buffered calls are never lost: every submitted argument reaches the function."""
from hypothesis import strategies as st

from vf.harness import buffer as H
from vf.props import buffer_common as B
from vf.runner import Result, V
from vf.sim.kernel import HarnessError
from vf.sim.world import thread_exc_violations

ID = 'C03'
LEVEL = 'exploration'
TECHNIQUE = ('property-based testing (Hypothesis) of timed submission programs with producer / function fault plans on a '
             'virtual-time loop, plus 1-2 foreign submitting threads under generated schedules (simulation kernel); '
             'delivery-model oracle at quiescence')
RULE = ('cases: up to 8 submissions (plain / awaitable / list, range, generator, iterator / async generator; producer delays and '
        'failure at any position) and wait() calls on a grid straddling the timeout, any subset of the first 6 function invocations '
        'raising, function duration 0 / <timeout / >timeout; one third of the cases add 1-2 foreign threads submitting and waiting '
        'under sparse/line/pct/walk schedules. non-trivial: >=1 function failure, or a submission landing while the function runs or '
        'within one margin of the quiet timer, or a foreign submitter; distinct by case hash')
ASSUMPTIONS = ['arguments are hashable ints, unique per submission except one deliberate duplicate',
               'cooperative shims faithful (selftest); source-line granularity of aiuti/asyncio.py',
               'quiescence = (failures+3)*(timeout+duration)+4*timeout+2 s after the last event']
CORPUS_PREEMPTIONS = {}
BUDGET = {'quick': 250, 'thorough': 6000}
ESSENTIAL = ['nontrivial', 'function-failed', 'foreign-thread', 'producer-failed']
valid = B.valid
simplify = B.simplify


def strategy(tier):
    vt = B.with_schedule(B.program(), 1)
    f1 = B.with_schedule(B.program(nmax=4, with_foreign=1), 2)
    f2 = B.with_schedule(B.program(nmax=3, with_foreign=2), 3)
    return st.one_of(vt, vt, f1, f2, B.pileup())


def run_case(case):
    hist = H.run(case)
    died, harness = thread_exc_violations(hist['thread_excs'], V)
    if harness:
        raise HarnessError('thread exception in buffer harness: %r' % harness)
    viol = B.judge_delivery(case, hist) + died + B.judge_other(case, hist)
    T = case['T']
    cl = ['sched=' + case['sched']['mode']]
    failed = any(not c['ok'] for c in hist['calls'])
    during = any(c['start'] < s['t'] < (c['end'] if c['end'] is not None else 1e9) for s in hist['subs'] for c in hist['calls'])
    near = any(abs(c['start'] - s['t']) <= B.MARGIN for s in hist['subs'] for c in hist['calls'])
    foreign = bool(case.get('foreign'))
    nt = failed or during or near or foreign
    if nt:
        cl.append('nontrivial')
    if failed:
        cl.append('function-failed')
    if during:
        cl.append('submitted-while-running')
    if foreign:
        cl.append('foreign-thread')
    if any(s['deliver'] != s['values'] for s in hist['subs']):
        cl.append('producer-failed')
    if any(s.get('kind') in ('gen', 'iter') for s in hist['subs']):
        cl.append('helper-thread-producer')
    return Result(viol, nt, cl, H.abbreviate(hist), {'steps': hist['steps'], 'decisions': hist['decisions']})
