"""Oracles for the cache properties over the history produced by vf.harness.cache."""
import asyncio as aio

from vf.harness.cache import InvFailure, InvBaseFailure, innermost_aiuti_frame
from vf.runner import V

EPS = 1e-6


def other_loop_exits_while_pending(hist, cid):
    """Number of run-exit events of loops other than the caller's own between
    the caller's arrival and its completion (used for labelling only)."""
    c = hist['callers'][cid]
    if c['arrived'] is None:
        return 0
    a = c['arrived'][1]
    d = c['done'][1] if c['done'] else float('inf')
    own = c['loop'].sim_name if c['loop'] is not None else None
    n = 0
    for ev in hist['loop_log']:
        if ev[0] in ('run-exit', 'close') and ev[1] != own and a <= ev[3] <= d:
            n += 1
    return n


def computing_loop_deaths(hist, cid):
    """Deaths that excuse a wait of up to the 60 s safety net for this caller: a loop other than the caller's
    own stopped running while it hosted an open invocation of the caller's key (or one that ended at that very
    virtual instant: lenient side), between the caller's arrival and its completion."""
    c = hist['callers'][cid]
    if c['arrived'] is None:
        return 0
    a = c['arrived'][1]
    d = c['done'][1] if c['done'] else float('inf')
    own = c['loop'].sim_name if c['loop'] is not None else None
    n = 0
    for ev in hist['loop_log']:
        if ev[0] != 'run-exit' or ev[1] == own or not (a <= ev[3] <= d):
            continue
        for r in hist['invs']:
            if r['loop_name'] == ev[1] and r['key'] == c['key'] and r['enter'][1] <= ev[3] and \
                    (r['exit'] is None or r['exit'][1] >= ev[3] or abs(r['exit'][0] - ev[4]) < EPS):
                n += 1
                break
    return n


def c01(case, hist):
    """(1) no two live invocations per key; (2) no invocation after a success;
    (3) every returned value is the unique success's value object."""
    out = []
    invs = hist['invs']
    for r in invs:
        if r['live_others']:
            q = invs[r['live_others'][0]]
            same_loop = q['loop_name'] == r['loop_name']
            out.append(V('overlap',
                         f"invocation {r['id']} of key {r['key']!r} entered on {r['loop_name']} at step {r['enter'][1]} "
                         f"while invocation {q['id']} was live on running loop {q['loop_name']} (entered step {q['enter'][1]})",
                         'overlap:same-loop' if same_loop else 'overlap:cross-loop'))
        if r['after_success']:
            out.append(V('reinvoked-after-success',
                         f"invocation {r['id']} of key {r['key']!r} entered after invocation {r['after_success'][0]} had returned successfully",
                         'reinvoked-after-success'))
    succ = {}
    for r in invs:
        if r['kind'] == 'ret':
            succ.setdefault(r['key'], []).append(r)
    for cid, c in hist['callers'].items():
        o = c['outcome']
        if o is not None and o[0] == 'ok':
            good = succ.get(c['key'], [])
            if not good or o[1] is not good[0]['value']:
                out.append(V('wrong-value', f"caller {cid} of key {c['key']!r} received {o[1]!r}; "
                             f"first successful invocation produced {good[0]['value'] if good else None!r}",
                             'wrong-value'))
    return out


def value_provenance(case, hist):
    """C06: a returned value is the value object of a successful invocation for the caller's key (a failed or
    cancelled computation caches nothing).  Which one, when a restarted loop lets two invocations succeed, is
    C01's business and outside its quantifier."""
    out = []
    succ = {}
    for r in hist['invs']:
        if r['kind'] == 'ret':
            succ.setdefault(r['key'], []).append(r['value'])
    for cid, c in hist['callers'].items():
        o = c['outcome']
        if o is not None and o[0] == 'ok' and not any(o[1] is v for v in succ.get(c['key'], [])):
            out.append(V('wrong-value', f"caller {cid} of key {c['key']!r} received {o[1]!r}, which no successful invocation for "
                         f"that key produced", 'value-without-successful-invocation'))
    return out


def c06(case, hist):
    """Each caller ends with: the value; an exception raised by an invocation this
    very caller performed; or a cancellation it was itself subjected to."""
    out = []
    invs = hist['invs']
    for cid, c in hist['callers'].items():
        o = c['outcome']
        if o is None or c['arrived'] is None:
            continue
        spec = c['spec']
        if o[0] == 'ok':
            continue
        e = o[1]
        if o[0] == 'cancelled':
            if c['cancel_req'] is not None or c['left_pending']:
                continue
            others = other_loop_exits_while_pending(hist, cid)
            out.append(V('foreign-cancel',
                         f"caller {cid} was cancelled although nobody cancelled its task and its loop was not shutting down"
                         f" ({others} other-loop exit(s) while it was pending)",
                         'foreign-cancel:other-loop-shutdown' if others else 'foreign-cancel:unexplained'))
            continue
        if isinstance(e, (InvFailure, InvBaseFailure)):
            r = invs[e.inv]
            if r['caller'] != cid:
                out.append(V('foreign-exception', f"caller {cid} received the failure of invocation {e.inv} performed by caller {r['caller']}",
                             'foreign-exception'))
            continue
        if isinstance(e, (aio.TimeoutError, TimeoutError)) and spec['timeout'] is not None:
            el = c['done'][0] - c['arrived'][0]
            if el + EPS >= spec['timeout']:
                continue
        fr = innermost_aiuti_frame(e)
        out.append(V('leaked-exception', f"caller {cid} received {type(e).__name__}: {e!r} (innermost aiuti frame: {fr})",
                     f'leak:{type(e).__name__}:{fr}'))
    # a failed / cancelled computation caches nothing: value must come from a successful invocation -> c01 (3)
    return out


def c05(case, hist):
    """(a) termination; (b) no waiting for nothing (stall accounting in virtual
    time); allowed stall: 60 s per other-loop death while the caller was pending."""
    out = []
    stop = hist['stop']
    pend = [cid for cid, c in hist['callers'].items()
            if c['arrived'] is not None and c['done'] is None and not c['left_pending']
            and c['loop'] is not None and not c['loop'].is_closed()]
    if stop in ('deadlock', 'livelock', 'requested:horizon'):
        deaths = sum(other_loop_exits_while_pending(hist, cid) for cid in pend)
        out.append(V('hang', f"run ended in {stop} at virtual t={hist['now']} with callers {pend} still pending",
                     'hang:%s:%s' % ('after-loop-death' if deaths else 'no-loop-death',
                                     'callers-pending' if pend else 'no-caller-pending')))
    # "callers on other loops recover by recomputing": a caller must not end with an exception that comes from the
    # cache's own bookkeeping or from another loop's death
    for v in c06(case, hist):
        if v['kind'] == 'leaked-exception':
            out.append(V('no-recovery', v['msg'], 'no-recovery:' + v['sig'].split(':')[1]))
    for cid, s in hist['stalls'].items():
        c = hist['callers'][cid]
        deaths = computing_loop_deaths(hist, cid)
        allowed = 60.0 * min(deaths, 4) + EPS
        if s > allowed:
            out.append(V('stall', f"caller {cid} of key {c['key']!r} waited {s:.4f}s of virtual time with no live invocation of its key "
                         f"(allowed {allowed:.1f}s: {deaths} death(s) of a loop computing its key); intervals {c.get('stall_at')}",
                         'stall:' + ('beyond-safety-net' if deaths else 'no-loop-death')))
    return out


def harness_ok(hist):
    """Thread-level exceptions other than those the program intends are harness errors."""
    return [repr(e) for n, e in hist['thread_excs']]
