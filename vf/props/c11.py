"""C11 - same-key requests are computed once per retention window, then afresh."""
from hypothesis import strategies as st

from vf.harness import batcher as H
from vf.props import batch_common as B
from vf.runner import Result

ID = 'C11'
LEVEL = 'exploration'
TECHNIQUE = ('property-based testing (Hypothesis) of same-key call sequences around the retention window on a virtual-time loop; '
             'epoch reference model with tie adoption; work items counted at the batch function')
RULE = ('cases: up to 10 calls over 1-3 keys (default str(arg) keys that collide, explicit keys), gaps on a grid around '
        'retention_timeout in {0, 1/4, 4} and around batch completion, outcomes value/exception, no cancellation; '
        'ties within 1/128 s adopt the branch the code took. non-trivial: for some key a call joined a completed request inside '
        'its retention window (or while pending) and a later call opened a new epoch; distinct by case hash')
ASSUMPTIONS = ['no caller is cancelled (subject of C09)', 'exact ties are adopted, not judged', 'virtual-time loop is faithful']
BUDGET = {'quick': 300, 'thorough': 8000}
ESSENTIAL = ['nontrivial', 'joined-after-completion']
valid = B.valid_case


@st.composite
def _case(draw):
    cfg = draw(B.cfg_strategy(rets=(0, 0.25, 0.25, 4.0)))
    bdur = draw(st.sampled_from([0, 4 * H.U, 0.25]))
    nk = draw(st.integers(1, 3))
    calls = draw(B.timed_calls(8, cfg, bdur, B.NAMES[:nk]))
    for c in calls:
        if draw(st.integers(0, 4)) == 0:
            c['chain'] = draw(st.integers(1, 2))    # ask again for the same key the moment the answer arrives
    keys = sorted({c['key'] if c['key'] is not None else c['name'] for c in calls})
    # a key's request may end with a yielded Exception, or with the batch function itself raising when it reaches the key
    # (before / after yielding it): the outcome of the request is then that exception, for every sharer
    behave = {k: draw(st.sampled_from(['exc', 'exc', 'raise_before', 'raise_after'])) for k in keys if draw(st.integers(0, 3)) == 0}
    return {'cfg': cfg, 'calls': calls, 'behave': behave, 'order': draw(st.sampled_from(['fwd', 'rev'])),
            'bdur': bdur, 'idur': draw(st.sampled_from([0, 0, 4 * H.U, 0.25])), 'mutate': None, 'fresh': 0}


def strategy(tier):
    # half of the programs serve timers that fall on one virtual instant in an order decided by a generated seed
    return st.builds(lambda c, tie: dict(c, tie=tie) if tie else c, _case(), st.one_of(st.just(0), st.integers(1, 10 ** 6)))


def run_case(case):
    hist = H.run(case)
    viol, skipped, epochs = B.judge_epochs(case, hist)
    viol += [v for v in B.judge_outcomes(hist) if v['kind'] == 'hang']
    cl = ['ret=%s' % case['cfg']['ret'], 'form=' + case['cfg']['form']]
    callers = {c['i']: c for c in hist['callers']}
    joined_after = any(callers[m]['arrived'] >= e['done'] for eps in epochs.values() for e in eps for m in e['members'][1:])
    joined_pending = any(callers[m]['arrived'] < e['done'] for eps in epochs.values() for e in eps for m in e['members'][1:])
    multi = any(len(eps) >= 2 for eps in epochs.values())
    nt = multi and (joined_after or joined_pending)
    if nt:
        cl.append('nontrivial')
    if joined_after:
        cl.append('joined-after-completion')
    if joined_pending:
        cl.append('joined-while-pending')
    if skipped:
        cl.append('tie-adopted')
    if any(c.get('after') is not None for c in hist['callers']):
        cl.append('chained-call')
    return Result(viol, nt, cl, H.abbreviate(hist), {'steps': hist['steps'], 'tie_skips': skipped})
