"""C09 - cancelling one batcher caller never disturbs the others."""
from hypothesis import strategies as st

from vf.harness import batcher as H
from vf.props import batch_common as B
from vf.runner import Result

ID = 'C09'
LEVEL = 'exploration'
TECHNIQUE = ('property-based testing (Hypothesis) of timed call programs with cancel / wait_for instants drawn relative to batch '
             'landmarks on a virtual-time loop; bystander outcomes compared by identity with the batch function\'s yield log')
RULE = ('cases: up to 8 calls (shared and distinct keys, explicit keys), any subset cancelled or wrapped in wait_for at instants '
        'from {queued, batch running before its result, exactly at, after}, well-behaved batch function (values and yielded '
        'exceptions), any result order, retention 0 and >0, followed by 2 fresh calls. non-trivial: a cancellation lands before the '
        'cancelled caller was answered while another caller is in the same batch or shares its key; distinct by case hash')
ASSUMPTIONS = ['batch function is well-behaved (every key yielded exactly once)', 'virtual-time loop is faithful']
BUDGET = {'quick': 300, 'thorough': 8000}
ESSENTIAL = ['nontrivial']
valid = B.valid_case


@st.composite
def _case(draw):
    cfg = draw(B.cfg_strategy())
    bdur = draw(st.sampled_from([0, 3 * H.U, 0.25]))
    calls = draw(B.timed_calls(8, cfg, bdur, B.NAMES[:3], cancels=True))
    keys = sorted({c['key'] if c['key'] is not None else c['name'] for c in calls})
    behave = {k: 'exc' for k in keys if draw(st.integers(0, 4)) == 0}
    return {'cfg': cfg, 'calls': calls, 'behave': behave, 'order': draw(st.sampled_from(['fwd', 'rev', 'rot'])),
            'bdur': bdur, 'idur': draw(st.sampled_from([0, H.U])), 'mutate': None, 'fresh': 2}


def strategy(tier):
    # half of the programs serve timers that fall on one virtual instant in an order decided by a generated seed
    return st.builds(lambda c, tie: dict(c, tie=tie) if tie else c, _case(), st.one_of(st.just(0), st.integers(1, 10 ** 6)))


def interfered(c):
    return c['spec'].get('cancel') is not None or c['spec'].get('timeout') is not None


def run_case(case):
    hist = H.run(case)
    viol = B.judge_outcomes(hist, skip=interfered)
    for v in viol:
        # root-cause signature for bystanders: what did they get instead?
        pass
    callers = hist['callers']
    # a cancellation that landed before the cancelled caller was answered, with a bystander in the same batch / same key
    nt = False
    for c in callers:
        if c['cancel_req'] is None and not (c['spec'].get('timeout') is not None and c['outcome'] and c['outcome'][0] == 'exc'
                                             and isinstance(c['outcome'][1], TimeoutError)):
            continue
        b = B.own_batch(hist, c)
        mates = [o for o in callers if o is not c and not interfered(o) and
                 (o['key'] == c['key'] or (b is not None and B.own_batch(hist, o) is b))]
        if mates:
            nt = True
    cl = ['form=' + case['cfg']['form'], 'ret=%s' % case['cfg']['ret']]
    if nt:
        cl.append('nontrivial')
    if any(c['cancel_req'] is not None for c in callers):
        cl.append('cancel-landed')
    return Result(viol, nt, cl, H.abbreviate(hist), {'steps': hist['steps']})
