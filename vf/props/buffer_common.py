"""Generators and oracles for the buffer_until_timeout properties (C03, C07, C08)."""
import functools

from hypothesis import strategies as st

from vf.harness import buffer as H
from vf.runner import V
from vf.sim.schedules import schedule_strategy, schedule_valid

U = 1 / 64
MARGIN = U
EPS = 1e-9


@functools.lru_cache(None)
def executed_lines():
    lines = set()
    case = {'T': 0.25, 'form': 'direct', 'fdur': 0.125, 'fails': [1],
            'prog': [{'at': 0, 'op': 'call', 'x': 1},
                     {'at': 0.125, 'op': 'map', 'kind': 'gen', 'xs': [2, 3, 4], 'fail_at': 2, 'delay': 0.125},
                     {'at': 0.25, 'op': 'amap', 'xs': [5, 6], 'fail_at': None, 'delay': 0},
                     {'at': 0.25, 'op': 'wait', 'cancel': True},
                     {'at': 0.5, 'op': 'await', 'x': 7, 'delay': 0.5, 'fail': False}],
            'foreign': [[{'gap': 0.125, 'op': 'call', 'x': 100}, {'gap': 0, 'op': 'wait', 'cancel': False},
                         {'gap': 0.25, 'op': 'call', 'x': 101}]],
            'shutdown': None, 'sched': {'mode': 'none'}}
    for sched in ({'mode': 'none'}, {'mode': 'pct', 'prio': [1, 3, 2, 0, 4, 5, 6, 7], 'cps': [40, 120]}):
        lines |= H.run(dict(case, sched=sched))['lines']
    keep = [[f, l] for f, l in sorted(lines)]
    return keep


@st.composite
def program(draw, nmax=8, kinds=('call', 'await', 'map', 'amap', 'wait'), immediate_only=False,
            forced_flush=True, fail_p=4, with_foreign=0, shutdown=False,
            foreign_ops=('call', 'call', 'map', 'await'), foreign_waits=True, foreign_wait_cancel=None):
    T = draw(st.sampled_from([0.25, 1.0]))
    fdur = draw(st.sampled_from([0, 0, T / 2, 2 * T]))
    fails = [i for i in range(1, 7) if draw(st.integers(0, 15)) < fail_p]
    grid = [0, 0, 0, U, T / 2, T - U, T, T + U, 2 * T, 3 * T]
    counter = [0]      # values start at 0: a falsy argument is an argument like any other

    def fresh(n):
        out = list(range(counter[0], counter[0] + n))
        counter[0] += n
        return out

    def one_op(t, kinds):
        k = draw(st.sampled_from(kinds))
        if k == 'call':
            return {'at': t, 'op': 'call', 'x': fresh(1)[0]}
        if k == 'wait':
            return {'at': t, 'op': 'wait', 'cancel': draw(st.booleans()) if forced_flush else False,
                    'inline': draw(st.integers(0, 3)) == 0}
        if k == 'await':
            return {'at': t, 'op': 'await', 'x': fresh(1)[0], 'delay': draw(st.sampled_from([0, U, T / 2, 2 * T])),
                    'fail': draw(st.integers(0, 4)) == 0, 'fail_kind': draw(st.sampled_from(['exc', 'exc', 'cancel', 'base']))}
        n = draw(st.integers(0, 3))
        xs = fresh(n)
        if k == 'map':
            kind = draw(st.sampled_from(['list', 'tuple', 'range', 'iter', 'gen'] if immediate_only else
                                        ['list', 'range', 'gen', 'iter', 'gen', 'reiter', 'iter-badclose']))
            fail_at = None
            delay = 0
            if kind in ('gen', 'iter', 'reiter', 'iter-badclose') and not immediate_only:
                fail_at = draw(st.sampled_from([None, None] + list(range(n + 1))))
                delay = draw(st.sampled_from([0, 0, U, T / 2]))
            return {'at': t, 'op': 'map', 'kind': kind, 'xs': xs, 'fail_at': fail_at, 'delay': delay}
        return {'at': t, 'op': 'amap', 'xs': xs, 'fail_at': draw(st.sampled_from([None, None] + list(range(n + 1)))),
                'delay': draw(st.sampled_from([0, 0, U, T / 2])), 'fail_kind': draw(st.sampled_from(['exc', 'exc', 'cancel', 'base']))}

    prog = []
    t = 0.0
    for i in range(draw(st.integers(1, nmax))):
        gap = draw(st.sampled_from(grid)) if i else 0.0
        follow = bool(prog) and prog[-1]['op'] == 'wait' and 'call' in kinds and draw(st.integers(0, 1)) == 0
        if follow:
            gap = 0.0      # a submission (or a second wait) landing inside the wait()'s own join / yield / cancel steps
        t += gap
        op = one_op(t, (('call', 'call', 'wait') if 'wait' in kinds else ('call',)) if follow else kinds)
        if i and gap == 0:
            # same virtual instant as the previous op: choose how many loop iterations later it happens
            # (more often right after a wait(): its join / sleep(0) / cancel steps are one iteration apart)
            after_wait = prog[-1]['op'] == 'wait'
            if draw(st.integers(0, 2)) == 0 or after_wait:
                op['iters'] = draw(st.sampled_from([1, 2, 3, 4]))
        prog.append(op)
    # a deliberately duplicated value
    vals = [o['x'] for o in prog if o['op'] == 'call']
    if vals and draw(st.integers(0, 5)) == 0:
        prog.append({'at': t + draw(st.sampled_from(grid)), 'op': 'call', 'x': draw(st.sampled_from(vals))})
    foreign = []
    for f in range(with_foreign):
        fp = []
        base = 1000 * (f + 1)
        for r in range(draw(st.integers(1, 3))):
            k = draw(st.sampled_from(list(foreign_ops)))
            gap = draw(st.sampled_from([0, 0, U, T / 2, T - U, T, T + U]))
            if k == 'call':
                fp.append({'gap': gap, 'op': 'call', 'x': base + r})
            elif k == 'map':
                fp.append({'gap': gap, 'op': 'map', 'kind': 'list', 'xs': [base + r, base + 100 + r], 'fail_at': None, 'delay': 0})
            else:
                fp.append({'gap': gap, 'op': 'await', 'x': base + r, 'delay': draw(st.sampled_from([0, U])), 'fail': False})
            if foreign_waits and draw(st.integers(0, 2)) == 0:
                fp.append({'gap': draw(st.sampled_from([0, 0, U])), 'op': 'wait',
                           'cancel': draw(st.booleans()) if foreign_wait_cancel is None else foreign_wait_cancel})
        foreign.append(fp)
    sd = None
    if shutdown:
        lm = sorted({0, T, fdur, T + fdur, t, t + T, t + T + fdur})
        sd = max(0.0, draw(st.sampled_from(lm)) + draw(st.sampled_from([0, U, -U, T / 2, fdur / 2 if fdur else U])))
    out = {'T': T, 'form': draw(st.sampled_from(['direct', 'direct', 'deco-opts'])), 'fdur': fdur, 'fails': fails,
           'prog': prog, 'foreign': foreign, 'shutdown': sd,
           'func_fail_kind': draw(st.sampled_from(['exc', 'exc', 'exc', 'cancel', 'base']))}
    if 'wait' in kinds and not immediate_only and len(prog) >= 2 and draw(st.integers(0, 2)) == 0:
        # the operations come from two independent coroutines on the loop; a waiting task may be started some time
        # before it actually calls wait()
        mask = [draw(st.booleans()) for _ in prog]
        out['prog'] = [o for o, m in zip(prog, mask) if not m] or prog[:1]
        out['prog2'] = [o for o, m in zip(prog, mask) if m and o not in out['prog']]
        for o in out['prog'] + out['prog2']:
            if o['op'] == 'wait' and not o.get('inline') and draw(st.integers(0, 1)) == 0:
                o['sleep'] = draw(st.sampled_from([U, T / 2, T, fdur / 2 if fdur else U, fdur if fdur else T]))
    if foreign and all(o['op'] in ('call', 'map') and o.get('kind', 'list') in ('list', 'tuple', 'range') for fp in foreign for o in fp) \
            and draw(st.integers(0, 2)) == 0:
        # the foreign submitters are plain threads (no running loop of their own), possibly with the buffer's loop set as
        # their current loop
        out['foreign_mode'] = draw(st.sampled_from(['plain', 'plain-setloop']))
    if draw(st.integers(0, 7)) == 0:
        out['func_attrs'] = True      # the wrapped function carries attributes of its own (one of them is called 'timeout')
    if draw(st.integers(0, 3)) == 0:
        out['mixed_args'] = True      # arguments of mixed, mutually unorderable types ('range' iterables stay ints)
    if not shutdown and draw(st.integers(0, 4)) == 0:
        # a second, independent buffer on the same loop whose function is busy for a while: buffers do not share anything
        out['other'] = {'at': draw(st.sampled_from([0, U, T / 2, T])), 'fdur': draw(st.sampled_from([0, T / 2, 2 * T, 5 * T])),
                        'x': 777}
    if shutdown:
        waits = [o['at'] for o in prog if o['op'] == 'wait']
        if waits and draw(st.integers(0, 2)) == 0:
            # main returns in the very instant a wait() is in progress, some loop iterations into it
            out['shutdown'] = draw(st.sampled_from(waits))
            out['shutdown_iters'] = draw(st.integers(1, 6))
    return out


@st.composite
def pileup(draw):
    """Programs built around one instant: a first call at 0 makes the function run from T to T+fdur; then 2-5 operations
    of two independent coroutines (submissions, waits issued as tasks or inline, 0-2 loop iterations into the instant)
    all fall on one landmark instant L - the start or the end of that invocation, or the end of the following quiet
    period - and a tie seed decides in which order the coinciding timers are served."""
    T = draw(st.sampled_from([0.25, 1.0]))
    fdur = draw(st.sampled_from([T / 2, 2 * T, 2 * T]))
    L = draw(st.sampled_from([T, T + fdur, T + fdur, T + fdur, 2 * T + fdur, 2 * T + 2 * fdur]))
    nxt = [1]
    progs = ([{'at': 0.0, 'op': 'call', 'x': 0}], [])

    def op():
        if draw(st.integers(0, 1)):
            nxt[0] += 1
            o = {'at': L, 'op': 'call', 'x': nxt[0]}
        else:
            o = {'at': L, 'op': 'wait', 'cancel': draw(st.booleans()), 'inline': draw(st.integers(0, 2)) == 0}
        if draw(st.integers(0, 2)) == 0:
            o['iters'] = draw(st.integers(1, 2))
        return o
    for _ in range(draw(st.integers(2, 5))):
        progs[draw(st.integers(0, 1))].append(op())
    if not any(o['op'] == 'wait' for p in progs for o in p):
        progs[1].append({'at': L, 'op': 'wait', 'cancel': False, 'inline': False})
    if draw(st.integers(0, 2)) == 0:
        progs[draw(st.integers(0, 1))].append({'at': L + draw(st.sampled_from([U, T / 2, T])), 'op': 'wait',
                                               'cancel': draw(st.booleans()), 'inline': False})
    out = {'T': T, 'form': draw(st.sampled_from(['direct', 'deco-opts'])), 'fdur': fdur,
           'fails': [1] if draw(st.integers(0, 5)) == 0 else [], 'prog': progs[0], 'prog2': progs[1], 'foreign': [],
           'shutdown': None, 'func_fail_kind': 'exc', 'sched': {'mode': 'none'},
           'tie': draw(st.one_of(st.just(0), st.integers(1, 10 ** 6)))}
    if not out['prog2']:
        del out['prog2']
    return out


def with_schedule(prog_strategy, threads):
    if threads <= 1:
        sched = schedule_strategy(max_decision=200, lines=(), nthreads=2, walk_len=60,
                                  modes=('none', 'none', 'sparse', 'pct', 'walk'))
    else:
        sched = schedule_strategy(max_decision=700, lines=executed_lines(), nthreads=threads + 1, walk_len=300)
    return st.builds(lambda p, s: dict(p, sched=s), prog_strategy, sched)


def valid(case):
    try:
        if case['T'] <= 0 or case['fdur'] < 0 or not schedule_valid(case['sched']):
            return False
        if not all(isinstance(i, int) and i >= 1 for i in case['fails']):
            return False

        def ok_op(o, foreign=False):
            if o['op'] not in ('call', 'await', 'map', 'amap', 'wait'):
                return False
            if (o.get('gap', 0) if foreign else o['at']) < 0:
                return False
            if o['op'] == 'map':
                if o['kind'] not in ('list', 'tuple', 'range', 'gen', 'iter', 'reiter', 'iter-badclose'):
                    return False
                if o['kind'] == 'range' and o['xs'] and o['xs'] != list(range(o['xs'][0], o['xs'][0] + len(o['xs']))):
                    return False
                if o['kind'] in ('list', 'tuple', 'range') and (o.get('fail_at') is not None or o.get('delay')):
                    return False
            if o['op'] in ('map', 'amap'):
                f = o.get('fail_at')
                if f is not None and not (0 <= f <= len(o['xs'])):
                    return False
                if len(set(o['xs'])) != len(o['xs']):
                    return False
            if o.get('delay', 0) < 0 or not (0 <= o.get('iters', 0) <= 8):
                return False
            if o.get('fail_kind', 'exc') not in ('exc', 'cancel', 'base'):
                return False
            return True
        if not all(ok_op(o) for o in case['prog'] + (case.get('prog2') or [])):
            return False
        if any(o.get('sleep', 0) < 0 for o in case['prog'] + (case.get('prog2') or [])):
            return False
        for fp in case.get('foreign') or ():
            if not all(ok_op(o, True) for o in fp):
                return False
        if case.get('shutdown') is not None and (case['shutdown'] < 0 or case.get('foreign')):
            return False
        if not (0 <= case.get('shutdown_iters', 0) <= 8):
            return False
        if case.get('foreign_mode', 'loop') not in ('loop', 'plain', 'plain-setloop'):
            return False
        o = case.get('other')
        if o is not None and (case.get('shutdown') is not None or o['at'] < 0 or o['fdur'] < 0):
            return False
        if case.get('func_fail_kind', 'exc') not in ('exc', 'cancel', 'base'):
            return False
        return case.get('form', 'direct') in ('direct', 'deco-opts')
    except (KeyError, TypeError, IndexError):
        return False


def simplify(case):
    import copy
    if case['fails']:
        for i in range(len(case['fails'])):
            n = copy.deepcopy(case)
            del n['fails'][i]
            yield n
    if case['fdur']:
        yield dict(copy.deepcopy(case), fdur=0)
    if case.get('form') != 'direct':
        yield dict(copy.deepcopy(case), form='direct')
    if case.get('func_fail_kind', 'exc') != 'exc':
        yield dict(copy.deepcopy(case), func_fail_kind='exc')
    if case.get('other'):
        yield dict(copy.deepcopy(case), other=None)
    if case.get('prog2'):
        n = copy.deepcopy(case)
        n['prog'] = n['prog'] + n.pop('prog2')
        yield n
    for i, o in enumerate(case['prog']):
        if o['op'] in ('map', 'amap') and (o.get('fail_at') is not None or o.get('delay')):
            n = copy.deepcopy(case)
            n['prog'][i]['fail_at'] = None
            n['prog'][i]['delay'] = 0
            yield n
        if o['op'] in ('await',) and (o.get('fail') or o.get('delay')):
            n = copy.deepcopy(case)
            n['prog'][i]['fail'] = False
            n['prog'][i]['delay'] = 0
            yield n


# ---------------------------------------------------------------- oracles --
def state_at(hist, t):
    """Buffer state just before virtual time t (events at exactly t may be
    consequences of what happens at t): function-running / waiting-to-retry /
    timer-armed-or-collecting / idle."""
    for c in hist['calls']:
        if c['start'] < t - EPS and (c['end'] is None or c['end'] > t - EPS):
            return 'function-running'
    got = set()
    ended = [c for c in hist['calls'] if c['end'] is not None and c['end'] < t - EPS]
    for c in ended:
        if c['ok']:
            got.update(c['args'])
    pending = [v for s in hist['subs'] if s['t'] <= t + EPS for v in s['deliver'] if v not in got]
    slow = [s for s in hist['subs'] if s['t'] <= t + EPS and s['op'] in ('await', 'amap', 'map') and not s['deliver']
            and s['values']]
    if pending or slow:
        if ended and not ended[-1]['ok']:
            return 'waiting-to-retry'
        return 'timer-armed-or-collecting'
    return 'idle'


def judge_other(case, hist):
    """The second buffer (if any) got its one argument exactly once, timeout after it arrived."""
    o = case.get('other')
    if not o or hist['stop'] != 'finished' or case.get('shutdown') is not None:
        return []
    oc = hist.get('other_calls') or []
    ok = len(oc) == 1 and oc[0]['args'] == [o['x']] and oc[0]['end'] is not None
    if not ok:
        return [V('other-buffer', f"a second buffer on the same loop, given {o['x']} at {o['at']}, saw the calls {oc!r}", 'other-buffer')]
    return []


def judge_delivery(case, hist):
    """C03."""
    out = []
    if hist['stop'] != 'finished':
        out.append(V('hang', f"run ended in {hist['stop']} at t={hist['now']}", 'hang'))
        return out
    calls = hist['calls']
    counts = {}
    for c in calls:
        if c['ok']:
            for a in c['args']:
                counts[a] = counts.get(a, 0) + 1
    submitted_all = {}
    for s in hist['subs']:
        for v in s['values']:
            submitted_all[v] = submitted_all.get(v, 0) + 1
    deliver_cnt = {}
    owner_vals = set()
    for s in hist['subs']:
        for v in s['deliver']:
            deliver_cnt[v] = deliver_cnt.get(v, 0) + 1
            if s['thread'] == 'owner':
                owner_vals.add(v)
    for v in deliver_cnt:
        if counts.get(v, 0) < 1:
            who = [s for s in hist['subs'] if v in s['deliver']][0]
            out.append(V('lost', f"argument {v} submitted via {who['op']} from {who['thread']} at t={who['t']} never reached a "
                         f"successful call; calls: {[(c['start'], c['args'], c['ok']) for c in calls]}",
                         'lost:' + who['op'] + (':foreign' if who['thread'] != 'owner' else '')))
    for c in calls:
        for a in c['args']:
            if a not in submitted_all:
                out.append(V('invented', f"call {c['i']} received {a}, which was never submitted", 'invented'))
    for a, b in zip(calls, calls[1:]):
        if not a['ok'] and not set(a['args']) <= set(b['args']):
            out.append(V('dropped-after-failure', f"call {a['i']} failed with {a['args']} but the next call got {b['args']}",
                         'dropped-after-failure'))
    nforeign = len(case.get('foreign') or ())
    for v in owner_vals:
        if counts.get(v, 0) > deliver_cnt[v] and submitted_all.get(v, 0) == 1:
            out.append(V('duplicate-delivery', f"argument {v} (submitted once from the loop's own thread) was passed to "
                         f"{counts[v]} successful calls: {[(c['start'], c['args'], c['ok']) for c in calls]}",
                         'duplicate-delivery' + (':with-foreign-submitter' if nforeign else '')))
    return out


def judge_barrier(case, hist):
    """C07."""
    out = []
    sd = case.get('shutdown')
    if sd is None:
        if hist['stop'] != 'finished':
            pend = [w for w in hist['waits'] if w['t_ret'] is None]
            out.append(V('hang', f"run ended in {hist['stop']}; waits not returned: "
                         f"{[(w['thread'], w['t_call'], w['cancel']) for w in pend]}",
                         'wait-never-returns' if pend else 'hang'))
    else:
        if hist['owner_finished'] is None:
            st_ = state_at(hist, sd)
            out.append(V('shutdown-hang', f"main returned at t={sd} (buffer state: {st_}); loop shutdown never finished "
                         f"(run ended in {hist['stop']} at t={hist['now']})", 'shutdown-hang:' + st_))
    for w in hist['waits']:
        if w['t_ret'] is not None and w['missing']:
            out.append(V('barrier', f"wait(cancel={w['cancel']}) called at t={w['t_call']} by {w['thread']} returned at "
                         f"t={w['t_ret']} although {w['missing']} (submitted before it) had not reached a successful call",
                         'barrier' + (':foreign' if w['thread'] != 'owner' else '')))
        if w['exc'] not in (None, 'cancelled'):
            out.append(V('wait-raised', f"wait() raised {w['exc']}", 'wait-raised'))
        if w['exc'] == 'cancelled' and sd is None:
            out.append(V('wait-cancelled', f"wait() by {w['thread']} was cancelled although nothing was shut down", 'wait-cancelled'))
    return out


def judge_debounce(case, hist):
    """C08 (i)-(iv)."""
    out = []
    T = case['T']
    calls = hist['calls']
    skipped = 0
    for c in calls:
        if c['overlap']:
            out.append(V('overlap', f"call {c['i']} started at t={c['start']} while another call was running", 'overlap'))
        if not c['args']:
            out.append(V('empty-call', f"call {c['i']} at t={c['start']} received an empty set", 'empty-call'))
    if case.get('flush'):
        return out, 0        # with forced flushes only "never twice at once" and "never an empty set" are judged
    arrivals = sorted(s['t'] for s in hist['subs'])
    arr_args = {}
    for s in hist['subs']:
        arr_args.setdefault(s['t'], []).extend(s['deliver'])
    # (iii) no invocation starts within (a, a+T-margin)
    for a in arrivals:
        for c in calls:
            if a + MARGIN < c['start'] < a + T - MARGIN:
                out.append(V('early-call', f"call {c['i']} started at t={c['start']}, {c['start'] - a:.4f}s after the submission at "
                             f"t={a} (timeout {T})", 'early-call'))
            elif abs(c['start'] - a) <= MARGIN or abs(c['start'] - (a + T)) <= MARGIN:
                pass
    # (iv) isolated bursts
    bursts = []
    cur = []
    for a in arrivals:
        if cur and a - cur[-1] >= T - MARGIN:
            bursts.append(cur)
            cur = []
        cur.append(a)
    if cur:
        bursts.append(cur)
    for i, b in enumerate(bursts):
        prev_end = bursts[i - 1][-1] if i else None
        next_start = bursts[i + 1][0] if i + 1 < len(bursts) else None
        if any(abs((y - x) - T) <= MARGIN for x, y in zip(b, b[1:])):
            skipped += 1
            continue
        if prev_end is not None and b[0] - prev_end < T + MARGIN:
            skipped += 1
            continue
        if next_start is not None and next_start - b[-1] < T + MARGIN:
            skipped += 1
            continue
        # all arrive while no invocation in progress (nor within a margin of one's start/end),
        # and not within a margin of a retry timer
        busy = False
        for a in b:
            for c in calls:
                end = c['end'] if c['end'] is not None else float('inf')
                if c['start'] - MARGIN <= a <= end + MARGIN:
                    busy = True
                if not c['ok'] and c['end'] is not None and abs(a - (c['end'] + T)) <= MARGIN:
                    busy = True
        if busy:
            skipped += 1
            continue
        args = [v for a in b for v in arr_args.get(a, [])]
        if not args:
            # nothing to deliver; but older retained arguments (after a failure) may still cause a call
            continue
        due = b[-1] + T
        at_due = [c for c in calls if abs(c['start'] - due) <= 1e-6]
        if len(at_due) != 1:
            out.append(V('burst-call-missing', f"burst of submissions at {b} (timeout {T}) with arguments {args}: expected exactly one "
                         f"call starting at t={due}, calls started at {[c['start'] for c in calls]}",
                         'burst-no-call-at-due-time' if not at_due else 'burst-several-calls'))
        elif not set(args) <= set(at_due[0]['args']):
            out.append(V('burst-split', f"burst at {b} with arguments {args}: the call at t={due} received {at_due[0]['args']}",
                         'burst-split'))
    return out, skipped
