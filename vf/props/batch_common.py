"""Generators and oracles shared by the batcher properties (C04, C09, C10, C11)."""
from hypothesis import strategies as st

from vf.harness.batcher import U, BatchBoom, YieldedError, Val
from vf.runner import V

MARGIN = U / 2
EPS = 1e-9
NAMES = ['a', 'b', 'c', '1']
BEHAVIOURS = ['value', 'exc', 'excclass', 'omit', 'raise_before', 'raise_after', 'twice', 'unknown']


def _sized(elem, lo, hi):
    return st.integers(lo, hi).flatmap(lambda n: st.lists(elem, min_size=n, max_size=n))


@st.composite
def timed_calls(draw, nmax, cfg, bdur, names, explicit_keys=True, cancels=False, unique=False):
    bt, R = cfg['bt'], cfg['ret']
    n = draw(st.integers(1, nmax))
    lm = sorted({0, bt, bt + bdur, bt + bdur + R, R, 2 * bt})
    t = 0.0
    calls = []
    for i in range(n):
        how = draw(st.integers(0, 9))
        if how < 3 or i == 0:
            gap = 0.0
        elif how < 6:
            gap = draw(st.sampled_from([U, bt - U, bt, bt + U, bt / 2, 2 * bt]))
        else:
            gap = max(0.0, draw(st.sampled_from(lm)) + draw(st.sampled_from([0, U, -U, 2 * U, 0.25])))
        t += gap
        name = ('n%d' % i) if unique else draw(st.sampled_from(names))
        key = None
        if explicit_keys and not unique and draw(st.integers(0, 3)) == 0:
            key = draw(st.sampled_from(['K', 'a', '1']))
        c = {'at': t, 'name': name, 'key': key, 'cancel': None, 'timeout': None}
        if draw(st.integers(0, 5)) == 0:
            c['hops'] = draw(st.integers(1, 3))       # position inside the instant, in loop iterations
        if cancels:
            z = draw(st.integers(0, 9))
            if z < 3:
                c['cancel'] = t + draw(st.sampled_from([0, U, bt - U, bt, bt + U, bt + bdur - U, bt + bdur, bt + bdur + U,
                                                        bt + bdur / 2]))
            elif z < 5:
                c['timeout'] = draw(st.sampled_from([U, bt, bt + bdur / 2, bt + bdur, bt + bdur + U])) or U
        calls.append(c)
    return calls


def cfg_strategy(rets=(0, 0, 0.25, 4.0), forms=('class', 'class', 'deco', 'deco-opts')):
    return st.fixed_dictionaries({
        'mbs': st.integers(1, 5), 'mcb': st.integers(1, 3), 'bt': st.sampled_from([8 * U, 8 * U, 4 * U]),
        'ret': st.sampled_from(list(rets)), 'form': st.sampled_from(list(forms))})


def valid_case(case):
    try:
        c = case['cfg']
        if not (c['mbs'] >= 1 and c['mcb'] >= 1 and c['bt'] > 0 and c['ret'] >= 0):
            return False
        if c['form'] not in ('class', 'deco', 'deco-opts'):
            return False
        for x in case['calls']:
            if x['at'] < 0 or not isinstance(x['name'], str):
                return False
            if x.get('cancel') is not None and x['cancel'] < 0:
                return False
            if x.get('timeout') is not None and x['timeout'] <= 0:
                return False
            if not (0 <= x.get('chain', 0) <= 3):
                return False
        if case['order'] not in ('fwd', 'rev', 'rot') or case['bdur'] < 0 or case['idur'] < 0:
            return False
        for k, v in (case.get('behave') or {}).items():
            if v not in BEHAVIOURS and v != 'excstop':
                return False
        if case.get('mutate') and not (case['mutate']['mbs'] >= 1 and case['mutate']['at'] >= 0):
            return False
        if case.get('raise_type', 'BatchBoom') not in ('BatchBoom', 'KeyError', 'ValueError', 'RuntimeError', 'LookupError',
                                                      'TimeoutError', 'OSError'):
            return False
        if not all(t >= 0 for t in case.get('gc_at') or ()):
            return False
        return case.get('fresh', 0) >= 0
    except (KeyError, TypeError):
        return False


# ---------------------------------------------------------------- oracles --
def first_misbehaviour(b):
    """Index in the batch's yield log of the first yield for a key that was
    already yielded or that is not in the batch; None if well-behaved."""
    seen = set()
    keys = {k for k, _ in b['items']}
    for i, (k, o, t) in enumerate(b['yields']):
        if k in seen or k not in keys:
            return i
        seen.add(k)
    return None


def own_batch(hist, c):
    for b in hist['batches']:
        if (c['key'], c['i']) in b['items'] and b.get('batcher', 0) == c.get('batcher', 0):
            return b
    return None


def _is_outcome(obj, exp):
    """obj is the outcome object exp - or, for a yielded StopIteration (which no coroutine can raise and no Future can
    carry), a RuntimeError that names it as its cause, the way Python itself converts such a raise."""
    if obj is exp:
        return True
    return isinstance(exp, StopIteration) and isinstance(obj, RuntimeError) and (obj.__cause__ is exp or obj.__context__ is exp)


def judge_outcomes(hist, skip=lambda c: False, wellbehaved=False):
    """C04: each caller gets exactly the outcome the batch function produced for its key."""
    out = []
    callers = hist['callers']
    if hist['stop'] != 'finished':
        pend = [c['i'] for c in callers if c['arrived'] is not None and c['outcome'] is None]
        out.append(V('hang', f"run ended in {hist['stop']} with callers {pend} unanswered",
                     'livelock' if hist['stop'] == 'livelock' else 'hang'))
    originals = {}
    for c in callers:
        b = own_batch(hist, c)
        if b is not None:
            originals[c['i']] = b
    for c in callers:
        if c['outcome'] is None or skip(c):
            continue
        k = c['key']
        kind, obj = c['outcome']
        desc = f"caller {c['i']} key {k!r}"
        # never another key's value / exception
        if kind == 'ok' and isinstance(obj, Val) and obj.key != k:
            out.append(V('foreign-value', f'{desc} received {obj!r}, yielded for key {obj.key!r}', 'foreign-value'))
            continue
        if kind == 'exc' and isinstance(obj, YieldedError) and obj.args[1] != k:
            out.append(V('foreign-exception', f'{desc} received {obj!r}, yielded for another key', 'foreign-exception'))
            continue
        if kind == 'ok' and isinstance(obj, Val) and hist['batches'][obj.batch].get('batcher', 0) != c.get('batcher', 0):
            out.append(V('foreign-value', f'{desc} (batcher {c.get("batcher", 0)}) received {obj!r}, produced by the other batcher',
                         'foreign-batcher-value'))
            continue
        if kind == 'cancelled':
            out.append(V('unrequested-cancel', f'{desc} was cancelled although nobody cancelled it', 'unrequested-cancel'))
            continue
        b = originals.get(c['i'])
        if b is None:
            # a sharer: must have received the outcome of some request for its key
            firsts = []
            for bb in hist['batches']:
                if bb.get('batcher', 0) != c.get('batcher', 0):
                    continue
                m = first_misbehaviour(bb)
                for i, (kk, o, t) in enumerate(bb['yields']):
                    if kk == k and (m is None or i < m):
                        firsts.append(o)
                        break
            same = any(_is_outcome(obj, o) for o in firsts)
            if not same:
                shared_with = [o for o in callers if o['i'] in originals and o['key'] == k and o['outcome'] is not None
                               and o['outcome'][1] is obj and o.get('batcher', 0) == c.get('batcher', 0)]
                if not shared_with:
                    out.append(V('sharer-outcome', f'{desc} (joined an existing request) ended with {kind} {obj!r}, which is neither a '
                                 f'first yield for its key nor the outcome of the request it joined', 'sharer-outcome'))
            elif isinstance(obj, Exception) and kind == 'ok':
                out.append(V('exception-returned', f'{desc} got the yielded Exception instance {obj!r} as a return value',
                             'exception-returned'))
            continue
        m = first_misbehaviour(b)
        idx = next((i for i, (kk, o, t) in enumerate(b['yields']) if kk == k), None)
        if idx is not None and (m is None or idx < m):
            exp = b['yields'][idx][1]
            if isinstance(exp, Exception):
                if not (kind == 'exc' and _is_outcome(obj, exp)):
                    out.append(V('wrong-outcome', f'{desc}: batch {b["id"]} yielded exception {exp!r}; caller ended with {kind} {obj!r}',
                                 'exception-returned' if (kind == 'ok' and obj is exp) else 'wrong-outcome:yielded-exc'))
            elif not (kind == 'ok' and obj is exp):
                out.append(V('wrong-outcome', f'{desc}: batch {b["id"]} yielded {exp!r}; caller ended with {kind} {obj!r}',
                             'wrong-outcome:value'))
        elif idx is None and m is None:
            if b['raised'] is not None:
                if not (kind == 'exc' and obj is b['raised']):
                    out.append(V('wrong-outcome', f'{desc}: batch {b["id"]} raised {b["raised"]!r} while it was unanswered; '
                                 f'caller ended with {kind} {obj!r}', 'wrong-outcome:batch-raised'))
            elif kind != 'exc':
                out.append(V('wrong-outcome', f'{desc}: key never yielded by batch {b["id"]}; caller ended with {kind} {obj!r} '
                             f'instead of an error', 'wrong-outcome:omitted'))
        else:
            # after a misbehaving yield the statement is silent: any exception, or a value yielded for its own key
            if kind == 'ok' and not any(kk == k and o is obj for kk, o, t in b['yields']):
                out.append(V('wrong-outcome', f'{desc}: after a misbehaving yield it received {obj!r}, not yielded for its key',
                             'wrong-outcome:after-misbehaviour'))
    return out


def judge_limits(case, hist):
    """C10: model-free invariants implied by the statement."""
    out = []
    cfg = case['cfg']
    bt = cfg['bt']
    batches = sorted(hist['batches'], key=lambda b: (b['start'], b['id']))
    callers = {c['i']: c for c in hist['callers']}
    mbs_log = hist['mbs_log']
    skipped = 0

    def mbs_in_force(t0, t1):
        # largest limit in force at any instant of [t0, t1]; a mutation at exactly t0 is a tie, so the
        # value in force just before t0 counts too
        vals = [v for t, v in mbs_log if t < t0 - EPS]
        cur = vals[-1] if vals else cfg['mbs']
        more = [v for t, v in mbs_log if t0 - EPS <= t <= t1 + EPS]
        return max([cur] + more)

    flat = []
    for k, b in enumerate(batches):
        ids = [i for _, i in b['items']]
        if not ids:
            out.append(V('empty-batch', f'batch {b["id"]} started at {b["start"]} with no items', 'empty-batch'))
            continue
        arr = [callers[i]['arrived'] for i in ids]
        lim = mbs_in_force(min(arr), b['start'])
        # The size test that admitted the k-th item ran after the (k-1)-th item had joined, i.e. no earlier than
        # that item's arrival: k-1 < limit in force at some instant of [arrival_{k-1}, start].  (Which limit applies
        # *during* a mutation is not stated; this is the most lenient reading that still holds the batcher to a
        # limit that was in force before the previous item even arrived.)
        for pos in range(2, len(arr) + 1):
            lim_k = mbs_in_force(arr[pos - 2], b['start'])
            if pos > lim_k:
                out.append(V('oversize', f'batch {b["id"]} took a {pos}-th item although max_batch_size was at most {lim_k} from the '
                             f'arrival of the previous item ({arr[pos - 2]:.4f}) until the batch started at {b["start"]:.4f} '
                             f'(limits: {mbs_log})', 'oversize' if len(mbs_log) == 1 else 'oversize:after-mutation'))
                break
        running = sum(1 for o in batches if o['start'] <= b['start'] + EPS and (o['end'] is None or o['end'] > b['start'] + EPS)
                      and (o['start'] < b['start'] - EPS or o['id'] <= b['id']))
        if b['conc'] > cfg['mcb']:
            out.append(V('over-concurrency', f'batch {b["id"]} started as execution #{b["conc"]} at once; '
                         f'max_concurrent_batches={cfg["mcb"]}', 'over-concurrency'))
        flat.extend(ids)
        # timeliness
        last = max(arr)
        ends = sorted(o['end'] for o in batches[:k] if o['end'] is not None)
        nopen = sum(1 for o in batches[:k] if o['end'] is None)
        t_free = 0.0
        if k - nopen >= cfg['mcb'] and len(ends) >= k - cfg['mcb'] + 1:
            t_free = ends[k - cfg['mcb']]
        full = len(ids) >= lim
        # "no later than batch_timeout after the last arrival that joined its batch (once a concurrency slot is
        # free)": the batch is due batch_timeout after its last arrival (at once when full), or the moment a slot
        # frees up if that is later.  (An earlier, more lenient reading that granted another batch_timeout after
        # the slot freed was dropped: two independent readers of the statement took it strictly.)
        deadline = max(last + (0 if full and len(mbs_log) == 1 else bt), t_free)
        if b['start'] > deadline + EPS and nopen == 0:
            out.append(V('late-batch', f'batch {b["id"]} (items {ids}) started at {b["start"]:.4f}; last arrival {last:.4f}, '
                         f'batch_timeout {bt}, slot free at {t_free:.4f}', 'late-batch'))
    order = [c['i'] for c in sorted(hist['callers'], key=lambda c: (c['seq'] if c['seq'] is not None else 1e9))
             if c['arrived'] is not None and not c['fresh']]
    flat_nf = [i for i in flat if not callers[i]['fresh']]
    if flat_nf != order[:len(flat_nf)] or len(flat_nf) != len(order):
        out.append(V('not-fifo', f'items reached the batch function in order {flat_nf}; calls arrived in order {order}', 'not-fifo'))
    # sharing: consecutive arrivals closer than bt share a batch unless the earlier one's batch is full
    where = {}
    for b in batches:
        for _, i in b['items']:
            where[i] = b
    for a, b_ in zip(order, order[1:]):
        ca, cb = callers[a], callers[b_]
        gap = cb['arrived'] - ca['arrived']
        if a not in where or b_ not in where:
            continue
        ba = where[a]
        if abs(gap - bt) < MARGIN:
            skipped += 1
            continue
        if gap < bt - MARGIN and where[b_] is not ba:
            lim = mbs_in_force(min(callers[i]['arrived'] for _, i in ba['items']), ba['start'])
            low = min(v for t, v in mbs_log)
            if len(ba['items']) < low:
                out.append(V('split-burst', f'calls {a} and {b_} arrived {gap:.4f}s apart (< batch_timeout {bt}) but are in batches '
                             f'{ba["id"]} (size {len(ba["items"])}, limit {lim}) and {where[b_]["id"]}', 'split-burst'))
    return out, skipped


def judge_epochs(case, hist):
    """C11: epoch model per key with tie adoption (DESIGN C11)."""
    out = []
    R = case['cfg']['ret']
    skipped = 0
    for b in hist['batches']:
        keys = [k for k, _ in b['items']]
        if len(set(keys)) != len(keys):
            out.append(V('dup-key-in-batch', f'batch {b["id"]} carries a key twice: {keys}', 'dup-key-in-batch'))
    epochs = {}
    for c in sorted((c for c in hist['callers'] if c['arrived'] is not None and c['outcome'] is not None),
                    key=lambda c: c['seq']):
        k, t0, t1 = c['key'], c['arrived'], c['done']
        r = c['outcome'][1]
        eps = epochs.setdefault(k, [])
        cur = eps[-1] if eps else None
        if cur is not None:
            done = cur['done']
            if t0 < done - MARGIN:
                join = True
            elif c.get('after') is not None and abs(t0 - done) <= MARGIN and \
                    (c['after'] == cur['first'] or c['after'] in cur['pending_members']):
                # issued right after its predecessor was answered, and the predecessor is the original caller of
                # this epoch or joined while it was pending (so it is woken after the original): causally after
                # "the original caller has been answered", not a tie.  R > 0: inside the window -> joins; R = 0: nothing is remembered.
                join = R > 0
            elif abs(t0 - done) <= MARGIN:
                skipped += 1
                join = r is cur['outcome']
            elif R > 0 and t0 < done + R - MARGIN:
                join = True
            elif t0 > done + R + MARGIN:
                join = False
            else:
                skipped += 1
                join = r is cur['outcome']
            if join:
                if r is not cur['outcome']:
                    out.append(V('not-shared', f"caller {c['i']} key {k!r} arrived at {t0:.4f} while the request completed at "
                                 f"{done:.4f} was pending/retained (retention {R}) but got {r!r} instead of {cur['outcome']!r}",
                                 'not-shared'))
                cur['members'].append(c['i'])
                if t0 < done - MARGIN:
                    cur['pending_members'].append(c['i'])   # joined while pending: answered after the original caller
                continue
            if r is cur['outcome']:
                out.append(V('stale', f"caller {c['i']} key {k!r} arrived at {t0:.4f}, after the retention window of the request "
                             f"completed at {done:.4f} (retention {R}), yet received the old result {r!r}", 'stale'))
        eps.append({'first': c['i'], 'outcome': r, 'done': t1, 'members': [c['i']], 'pending_members': []})
    for k, eps in epochs.items():
        cnt = sum(1 for b in hist['batches'] for kk, _ in b['items'] if kk == k)
        if cnt != len(eps) and not skipped:
            out.append(V('work-count', f'key {k!r}: {cnt} work items reached the batch function, model has {len(eps)} epochs',
                         'work-count:' + ('more' if cnt > len(eps) else 'fewer')))
    return out, skipped, epochs
