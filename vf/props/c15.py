"""C15 - decorator-with-options forms configure exactly like the direct forms.

Four generated families, one oracle each (dispatch on case['kind']):
  batcher : one timed program run as class / decorator / decorator-with-options; identical histories (differential)
            and the C10/C11 invariants evaluated with the *requested* option values (effect-vs-value)
  buffer  : same for buffer_until_timeout(func, timeout=T) vs buffer_until_timeout(timeout=T)(func) with the C08/C03 oracles
  cache   : threadsafe_async_cache(f, cache=m) vs threadsafe_async_cache(cache=m)(f): same invocation counts, m is the store
  loops   : a decorated batcher function used from 1-3 loops successively and 2-3 concurrently (simulation kernel)
"""
import copy
import functools

from hypothesis import strategies as st

from vf.harness import batcher as HB, buffer as HF, multiloop as HM
from vf.props import batch_common as BC, buffer_common as FC, c14
from vf.runner import Result, V
from vf.sim.kernel import HarnessError
from vf.sim.schedules import schedule_strategy, schedule_valid
from vf.sim.world import thread_exc_violations

ID = 'C15'
LEVEL = 'exploration'
TECHNIQUE = ('differential property-based testing (Hypothesis): the same generated program under each spelling of the decorator '
             'must give identical virtual-time histories, and option effects are measured against the requested values by the '
             'C08/C10/C11/C14 oracles; multi-loop use of a decorated batcher under the simulation kernel')
RULE = ('cases: batcher programs with every option (max_batch_size, max_concurrent_batches, batch_timeout, retention_timeout) at '
        'non-default values under 3 spellings; buffer programs with timeout in {1/4, 1} under 2 spellings; cache histories with a '
        'supplied mapping under 2 spellings; decorated batcher used from 1-3 loops one after another (with garbage collection in '
        'between) and 2-3 loops at once. non-trivial: the option values differ from the defaults in a way the program observes '
        '(a batch reaches the size limit, the concurrency limit, a gap near batch_timeout, a call inside the retention window, a '
        'burst judged against timeout, an eviction) or >=2 loops are used; distinct by case hash')
ASSUMPTIONS = ['virtual-time loop / cooperative shims faithful (selftest)', 'oracles of C08, C10, C11, C14 as stated there']
CORPUS_PREEMPTIONS = {}
BUDGET = {'quick': 250, 'thorough': 6000}
ESSENTIAL = ['nontrivial', 'kind=batcher', 'kind=buffer', 'kind=cache', 'kind=loops']
U = HB.U


@functools.lru_cache(None)
def loop_lines():
    case = {'kind': 'loops', 'cfg': {'mbs': 2, 'mcb': 1, 'bt': 8 * U, 'ret': 0}, 'form': 'deco-opts', 'bdur': U,
            'phases': [[[{'at': 0, 'name': 'a'}, {'at': 0, 'name': 'b'}], [{'at': U, 'name': 'a'}]], [[{'at': 0, 'name': 'a'}]]],
            'sched': {'mode': 'none'}}
    return [[f, l] for f, l in sorted(HM.run(case)['lines'])]


@st.composite
def _batcher(draw):
    cfg = draw(BC.cfg_strategy(rets=(0, 0.25, 4.0), forms=('class',)))
    bdur = draw(st.sampled_from([0, 3 * U, 10 * U]))
    unique = draw(st.booleans())
    # (a third of the programs cancel / time out some callers: the three spellings must still behave alike)
    calls = draw(BC.timed_calls(10, cfg, bdur, BC.NAMES[:3], explicit_keys=not unique, unique=unique,
                                cancels=draw(st.integers(0, 2)) == 0))
    gc_at = []
    if draw(st.integers(0, 2)) == 0:
        # garbage collections while the batcher is idle between calls (the per-loop registry is weak)
        ts = sorted({c['at'] for c in calls})
        gc_at = sorted({t + draw(st.sampled_from([cfg['bt'] + bdur + U, cfg['bt'] + bdur + cfg['ret'] / 2, 2 * U]))
                        for t in draw(st.lists(st.sampled_from(ts), min_size=1, max_size=2))})
    keys = sorted({c['key'] if c['key'] is not None else c['name'] for c in calls})
    # some keys end with a yielded Exception: retention and sharing apply to failed requests as to successful ones
    behave = {k: 'exc' for k in keys if draw(st.integers(0, 4)) == 0}
    return {'kind': 'batcher', 'cfg': cfg, 'calls': calls, 'behave': behave, 'order': 'fwd', 'bdur': bdur, 'idur': 0,
            'mutate': None, 'fresh': 0, 'unique': unique, 'gc_at': gc_at}


@st.composite
def _buffer(draw):
    p = draw(FC.program(nmax=8, kinds=('call', 'call', 'map', 'wait'), immediate_only=True, forced_flush=False, fail_p=1))
    p['kind'] = 'buffer'
    p['sched'] = {'mode': 'none'}
    return p


@st.composite
def _cache(draw):
    ops = []
    for _ in range(draw(st.integers(1, 10))):
        if draw(st.integers(0, 4)) == 0:
            ops.append({'op': 'evict', 'i': draw(st.integers(0, 3))})
        else:
            ops.append({'op': 'call', 'args': draw(st.lists(st.integers(0, 4), max_size=2)),
                        'kwargs': [['x', draw(st.integers(0, 4))]] if draw(st.booleans()) else []})
    return {'kind': 'cache', 'cache': draw(st.sampled_from(['empty-mapping', 'lru'])), 'size': draw(st.integers(1, 3)), 'ops': ops}


@st.composite
def _loops(draw):
    cfg = {'mbs': draw(st.integers(1, 3)), 'mcb': draw(st.integers(1, 2)), 'bt': draw(st.sampled_from([4 * U, 8 * U])),
           'ret': draw(st.sampled_from([0, 0.25, 4.0]))}

    def calls():
        t = 0.0
        out = []
        for _ in range(draw(st.integers(1, 4))):
            t += draw(st.sampled_from([0, 0, U, cfg['bt'], 2 * cfg['bt']]))
            out.append({'at': t, 'name': draw(st.sampled_from('ab'))})
        return out
    phases = []
    for _ in range(draw(st.integers(1, 3))):
        phases.append([calls() for _ in range(draw(st.sampled_from([1, 1, 2, 3])))])
    if draw(st.integers(0, 2)) == 0:
        # one loop is left stopped (not closed) after its calls and is run again once the next phase is over
        pi = draw(st.integers(0, len(phases) - 1))
        li = draw(st.integers(0, len(phases[pi]) - 1))
        phases[pi][li] = {'calls': phases[pi][li], 'then': calls()}
    if draw(st.integers(0, 3)) == 0:
        # one call hands work to a thread that inherits its context and runs a loop of its own using the function
        ph = draw(st.sampled_from(phases))
        lp = draw(st.sampled_from(ph))
        cs = lp['calls'] if isinstance(lp, dict) else lp
        draw(st.sampled_from(cs))['nested'] = calls()
    sched = draw(schedule_strategy(max_decision=500, lines=loop_lines(), nthreads=4, walk_len=200))
    return {'kind': 'loops', 'cfg': cfg, 'form': draw(st.sampled_from(['deco', 'deco-opts'])), 'phases': phases,
            'bdur': draw(st.sampled_from([0, U, 4 * U])), 'sched': sched}


def strategy(tier):
    return st.one_of(_batcher(), _batcher(), _buffer(), _cache(), _loops())


def _lp_ok(lp):
    if isinstance(lp, dict):
        return bool(lp['calls']) and bool(lp.get('then')) and all(x['at'] >= 0 for x in lp['calls'] + lp['then'])
    return bool(lp) and all(x['at'] >= 0 for x in lp)


def valid(case):
    try:
        k = case['kind']
        if k == 'batcher':
            return BC.valid_case(case)
        if k == 'buffer':
            return FC.valid(case)
        if k == 'cache':
            return c14.valid(case) and case['cache'] in ('empty-mapping', 'lru')
        if k == 'loops':
            c = case['cfg']
            return (c['mbs'] >= 1 and c['mcb'] >= 1 and c['bt'] > 0 and c['ret'] >= 0 and case['form'] in ('deco', 'deco-opts')
                    and case['phases'] and all(ph and all(_lp_ok(lp) for lp in ph) for ph in case['phases'])
                    and case['bdur'] >= 0 and schedule_valid(case['sched']))
        return False
    except (KeyError, TypeError):
        return False


def _norm_batcher(hist):
    return {'stop': hist['stop'],
            'batches': [(round(b['start'], 9), None if b['end'] is None else round(b['end'], 9), b['items'], b['conc'])
                        for b in hist['batches']],
            'callers': [(c['i'], c['arrived'], c['done'], None if c['outcome'] is None else
                         (c['outcome'][0], type(c['outcome'][1]).__name__,
                          getattr(c['outcome'][1], 'batch', None), getattr(c['outcome'][1], 'key', None)))
                        for c in hist['callers']]}


def run_case(case):
    return {'batcher': _run_batcher, 'buffer': _run_buffer, 'cache': _run_cache, 'loops': _run_loops}[case['kind']](case)


def _run_batcher(case):
    viol = []
    hists = {}
    for form in ('class', 'deco', 'deco-opts'):
        c = copy.deepcopy(case)
        c['cfg']['form'] = form
        hists[form] = HB.run(c)
    ref = _norm_batcher(hists['class'])
    for form in ('deco', 'deco-opts'):
        if _norm_batcher(hists[form]) != ref:
            viol.append(V('spelling-differs', f"batcher form {form!r} behaves differently from the class with the same options "
                          f"{case['cfg']}: {_norm_batcher(hists[form])} vs {ref}", 'batcher-spelling-differs:' + form))
    # effect-vs-value on every spelling (so "ignored in all spellings" cannot pass)
    cl = ['kind=batcher']
    nt = False
    cancels = any(c_.get('cancel') is not None or c_.get('timeout') is not None for c_ in case['calls'])
    if cancels:
        cl.append('with-cancellations')
    for form, h in hists.items():
        if cancels:
            break        # the value-of-the-option judges assume that no caller is cancelled; the spellings are still compared
        c = copy.deepcopy(case)
        c['cfg']['form'] = form
        if case.get('unique'):
            v, _ = BC.judge_limits(c, h)
        else:
            v, _, _ = BC.judge_epochs(c, h)
        for x in v:
            viol.append(V(x['kind'], f'[{form}] ' + x['msg'], 'option-effect:' + x['sig']))
    cfg = case['cfg']
    h = hists['class']
    if case.get('unique'):
        if any(len(b['items']) >= cfg['mbs'] for b in h['batches']) and cfg['mbs'] < 256:
            nt = True
        if any(b['conc'] >= cfg['mcb'] for b in h['batches']):
            nt = True
    else:
        nt = cfg['ret'] > 0 and any(BC.own_batch(h, c) is None for c in h['callers'])
    if nt:
        cl.append('nontrivial')
    return Result(viol, nt, cl, {'class': HB.abbreviate(hists['class'])}, {'steps': sum(h['steps'] for h in hists.values())})


def _norm_buffer(h):
    return {'stop': h['stop'], 'calls': [(c['start'], c['end'], c['args'], c['ok']) for c in h['calls']],
            'waits': [(w['t_call'], w['t_ret'], w['missing']) for w in h['waits']]}


def _run_buffer(case):
    viol = []
    hs = {}
    for form in ('direct', 'deco-opts'):
        c = copy.deepcopy(case)
        c['form'] = form
        hs[form] = HF.run(c)
        died, harness = thread_exc_violations(hs[form]['thread_excs'], V)
        if harness:
            raise HarnessError('thread exception in buffer harness: %r' % harness)
        viol += died
    if _norm_buffer(hs['direct']) != _norm_buffer(hs['deco-opts']):
        viol.append(V('spelling-differs', f"buffer_until_timeout(timeout={case['T']})(f) behaves differently from "
                      f"buffer_until_timeout(f, timeout={case['T']}): {_norm_buffer(hs['deco-opts'])} vs {_norm_buffer(hs['direct'])}",
                      'buffer-spelling-differs'))
    skipped = 0
    for form, h in hs.items():
        v, sk = FC.judge_debounce(case, h)
        skipped += sk
        for x in v:
            viol.append(V(x['kind'], f'[{form}] ' + x['msg'], 'option-effect:' + x['sig']))
    nt = bool(hs['direct']['calls'])
    cl = ['kind=buffer'] + (['nontrivial'] if nt else [])
    return Result(viol, nt, cl, HF.abbreviate(hs['direct']), {'steps': sum(h['steps'] for h in hs.values())})


def _run_cache(case):
    """Same history under both spellings; the supplied mapping must be the store in both."""
    import asyncio as aio
    from aiuti.asyncio import threadsafe_async_cache
    viol = []
    res = {}
    for form in ('direct', 'deco-opts'):
        it = c14.Interp(case['cache'], case.get('size', 2))
        # rebuild the wrapper with the requested spelling
        if form == 'direct':
            it.wrapped = threadsafe_async_cache(it.f, cache=it.store)
        else:
            it.wrapped = threadsafe_async_cache(cache=it.store)(it.f)
        try:
            for op in case['ops']:
                it.apply(op)
        finally:
            it.close()
        res[form] = (len(it.invocations), [(a, k) for a, k in it.invocations], it.evictions)
        for k, msg, sig in [(v['kind'], v['msg'], v['sig']) for v in it.viol]:
            viol.append(V(k, f'[{form}] ' + msg, 'option-effect:' + sig))
    # the options form with the *default* store (no cache given) applied to two functions: each wrapped function
    # gets its own store, exactly as with the direct form
    loop = aio.new_event_loop()
    try:
        for label, deco in (('threadsafe_async_cache()', threadsafe_async_cache()),
                            ('threadsafe_async_cache(cache=None)', threadsafe_async_cache(cache=None))):
            seen = []

            async def f1(*a, **k):
                seen.append('f1')
                return ('f1', a, tuple(k.items()))

            async def f2(*a, **k):
                seen.append('f2')
                return ('f2', a, tuple(k.items()))
            w1, w2 = deco(f1), deco(f2)
            for op in case['ops']:
                if op['op'] != 'call':
                    continue
                args = tuple(c14.VALS[i] for i in op['args'])
                kwargs = {n: c14.VALS[i] for n, i in op['kwargs']}
                r1 = loop.run_until_complete(w1(*args, **kwargs))
                r2 = loop.run_until_complete(w2(*args, **kwargs))
                if r1[0] != 'f1' or r2[0] != 'f2':
                    viol.append(V('shared-default-store', f'{label} applied to two functions: f1{args}{kwargs} -> {r1!r}, '
                                  f'f2{args}{kwargs} -> {r2!r}', 'option-effect:shared-default-store'))
                    break
    finally:
        loop.close()
    if res['direct'][:2] != res['deco-opts'][:2]:
        viol.append(V('spelling-differs', f"threadsafe_async_cache(cache=m)(f) invoked f {res['deco-opts'][0]}x, "
                      f"threadsafe_async_cache(f, cache=m) {res['direct'][0]}x for the same history", 'cache-spelling-differs'))
    nt = res['direct'][0] >= 1
    cl = ['kind=cache'] + (['nontrivial'] if nt else []) + (['evicted'] if res['direct'][2] else [])
    return Result(viol, nt, cl, {'invocations': res['direct'][0], 'evictions': res['direct'][2]})


def per_loop_all(hist):
    out = {}
    for c in hist['callers']:
        out.setdefault((c['phase'], c['loop_index']), []).append(c)
    return out


def _run_loops(case):
    hist = HM.run(case)
    died, harness = thread_exc_violations(hist['thread_excs'], V)
    if harness:
        raise HarnessError('thread exception in multi-loop harness: %r' % harness)
    viol = list(died)
    cfg = case['cfg']
    if hist['stop'] != 'finished':
        pend = [c['i'] for c in hist['callers'] if c['outcome'] is None]
        viol.append(V('hang', f"run ended in {hist['stop']} with callers {pend} unanswered", 'loops-hang'))
    by_i = {c['i']: c for c in hist['callers']}
    for b in hist['batches']:
        loops = {by_i[i]['loop'] for _, i in b['items'] if i in by_i}
        if len(loops) > 1 or (loops and b['loop'] not in loops):
            viol.append(V('batch-mixes-loops', f"batch {b['id']} ran on loop {b['loop']} with items of callers on loops {sorted(loops)}",
                          'batch-mixes-loops'))
        if len(b['items']) > cfg['mbs']:
            viol.append(V('oversize', f"batch {b['id']} has {len(b['items'])} items, max_batch_size={cfg['mbs']}", 'option-effect:oversize'))
    for c in hist['callers']:
        if c['outcome'] is None:
            continue
        k, obj = c['outcome']
        if k != 'ok' or not isinstance(obj, HM.Val) or obj.key != c['key']:
            viol.append(V('wrong-outcome', f"caller {c['i']} on {c['loop']} key {c['key']!r} ended with {k} {obj!r}",
                          'loops-wrong-outcome' + (':' + type(obj).__name__ if k == 'exc' else '')))
        else:
            b = hist['batches'][obj.batch]
            if b['loop'] != c['loop']:
                viol.append(V('cross-loop-result', f"caller {c['i']} on {c['loop']} got a value computed by a batch on {b['loop']}",
                              'cross-loop-result'))
    # "each loop getting its own independent batching": on every loop, work items that arrive less than
    # batch_timeout apart share a batch unless it is full, whatever the other loops are doing
    where = {i: b for b in hist['batches'] for _, i in b['items']}
    for b in hist['batches']:
        keys = [k for k, _ in b['items']]
        if len(set(keys)) != len(keys):
            viol.append(V('dup-key-in-batch', f"batch {b['id']} on {b['loop']} carries a key twice: {keys}", 'loops-dup-key-in-batch'))
    per_loop = {}
    for c in hist['callers']:
        if c['i'] in where and c['arrived'] is not None:
            per_loop.setdefault((c['phase'], c['loop_index']), []).append(c)
    for lp, cs in per_loop.items():
        for a, b_ in zip(cs, cs[1:]):
            gap = b_['arrived'] - a['arrived']
            if gap < cfg['bt'] - U / 2 and where[a['i']] is not where[b_['i']] and len(where[a['i']]['items']) < cfg['mbs']:
                viol.append(V('split-burst', f"loop {a['loop']}: calls {a['i']} and {b_['i']} arrived {gap:.4f}s apart (< batch_timeout "
                              f"{cfg['bt']}) but went to batches {where[a['i']]['id']} (size {len(where[a['i']]['items'])}, limit "
                              f"{cfg['mbs']}) and {where[b_['i']]['id']}", 'loops-split-burst'))
                break
    # retention is per loop too: a call for a key whose earlier request on the same loop completed less than
    # retention_timeout ago adds no work item (also across a pause of that loop)
    if cfg['ret'] > 0:
        for lp, cs in per_loop_all(hist).items():
            for i, b_ in enumerate(cs):
                for a in cs[:i]:
                    if a['key'] == b_['key'] and a['done'] is not None and b_['arrived'] is not None and a['i'] in where \
                            and a['arrived'] <= b_['arrived'] < a['done'] + cfg['ret'] - U / 2 and b_['i'] in where \
                            and where[b_['i']] is not where[a['i']]:
                        viol.append(V('retention-ignored', f"loop {a['loop']}: call {b_['i']} for key {a['key']!r} arrived at "
                                      f"{b_['arrived']}, inside the retention window of call {a['i']} (done {a['done']}, retention "
                                      f"{cfg['ret']}), yet was put into batch {where[b_['i']]['id']}", 'loops-retention-ignored'))
                        break
    nloops = sum(len(ph) for ph in case['phases'])
    nt = nloops >= 2
    cl = ['kind=loops', 'form=' + case['form'], 'sched=' + case['sched']['mode']] + (['nontrivial'] if nt else [])
    if len(case['phases']) >= 2:
        cl.append('successive-loops')
    if any(len(ph) >= 2 for ph in case['phases']):
        cl.append('concurrent-loops')
    if any(isinstance(lp, dict) for ph in case['phases'] for lp in ph):
        cl.append('resumed-loop')
    if any(c.get('nested') for ph in case['phases'] for lp in ph for c in (lp['calls'] + lp['then'] if isinstance(lp, dict) else lp)):
        cl.append('nested-loop-in-thread')
    return Result(viol, nt, cl, HM.abbreviate(hist), {'steps': hist['steps'], 'decisions': hist['decisions']})
