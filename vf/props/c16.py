"""C16 - sync/async iterator bridges preserve the sequence and propagate errors."""
import functools

from hypothesis import strategies as st

from vf.harness import bridges as H
from vf.runner import Result, V
from vf.sim.kernel import HarnessError
from vf.sim.world import thread_exc_violations
from vf.sim.schedules import schedule_strategy, schedule_valid

ID = 'C16'
LEVEL = 'exploration'
TECHNIQUE = ('property-based testing (Hypothesis) of sources x failure position x producer/consumer delays x schedules of the '
             'producer thread against the consuming loop (simulation kernel); sequence / exception-identity oracle, virtual-time '
             'ticker for loop responsiveness, helper-thread census')
RULE = ('cases: sources of length 0-6 as list / tuple / range / generator / plain iterator (to_async_iter) or async generator '
        '(to_sync_iter, loop=None or a fresh idle loop), elements from {0, None, "", False, 1, 1, "x", (), 0.0, an object equal to everything, an object whose == raises}, failure at every '
        'position or none, producer and consumer step delays from {0, 1/4}, schedules none/sparse/line/pct/walk. '
        'non-trivial: the source is a true iterator / async generator (helper thread in use) and has length >=2 or fails at '
        'position >=1; distinct by case hash')
ASSUMPTIONS = ['full consumption only (early break is outside the statement)', 'the loop= argument is idle and not shared',
               'cooperative shims (ThreadPoolExecutor, queue.Queue) faithful (selftest)']
# delay injection only for to_sync_iter programs: the to_async_iter ones carry a loop-responsiveness (ticker) oracle
CORPUS_PREEMPTIONS = {'stalls': [0.3, 2.0], 'stall_filter': lambda case: case['dir'] == 'a2s'}
BUDGET = {'quick': 300, 'thorough': 8000}
ESSENTIAL = ['nontrivial', 'dir=s2a', 'dir=a2s', 'fails']
TICK = H.TICK


@functools.lru_cache(None)
def executed_lines():
    lines = set()
    for case in ({'dir': 's2a', 'src': {'kind': 'gen', 'elems': [0, 1, 2], 'fail_at': 2, 'delay': 0.25}, 'cdelay': 0, 'loop': 'none'},
                 {'dir': 'a2s', 'src': {'kind': 'agen', 'elems': [0, 1, 2], 'fail_at': None, 'delay': 0.25}, 'cdelay': 0.25, 'loop': 'fresh'}):
        lines |= H.run(dict(case, sched={'mode': 'none'}))['lines']
    return [[f, l] for f, l in sorted(lines)]


@st.composite
def _program(draw):
    direction = draw(st.sampled_from(['s2a', 's2a', 'a2s']))
    n = draw(st.integers(0, 6))
    elems = [draw(st.integers(0, len(H.ELEMS) - 1)) for _ in range(n)]
    if direction == 's2a':
        kind = draw(st.sampled_from(['list', 'tuple', 'range', 'gen', 'gen', 'iter', 'iter']))
    else:
        kind = 'agen'
    fail_at = None
    delay = 0
    if kind in ('gen', 'iter', 'agen'):
        fail_at = draw(st.sampled_from([None, None] + list(range(n + 1))))
        delay = draw(st.sampled_from([0, 0, 0.25]))
    fail_kind = 'exc'
    if fail_at is not None and kind == 'agen':
        # an asynchronous source may also fail with a cancellation (it awaited something that was cancelled)
        # or with a BaseException: "that same exception" reaches the consumer whatever its type
        fail_kind = draw(st.sampled_from(['exc', 'exc', 'cancel', 'base']))
    pair = draw(st.integers(0, 3)) == 0 and kind in ('gen', 'iter', 'agen')
    return {'pair': pair, 'dir': direction, 'src': {'kind': kind, 'elems': elems, 'fail_at': fail_at, 'delay': delay, 'fail_kind': fail_kind},
            'cdelay': draw(st.sampled_from([0, 0, 1 / 64, 0.25])),
            'loop': draw(st.sampled_from(['none', 'fresh'])) if direction == 'a2s' else 'none'}


def strategy(tier):
    sched = schedule_strategy(max_decision=300, lines=executed_lines(), nthreads=3, walk_len=150)
    return st.builds(lambda p, s: dict(p, sched=s), _program(), sched)


def valid(case):
    try:
        s = case['src']
        if case['dir'] not in ('s2a', 'a2s') or not schedule_valid(case['sched']):
            return False
        if case['dir'] == 's2a' and s['kind'] not in ('list', 'tuple', 'range', 'gen', 'iter'):
            return False
        if case['dir'] == 'a2s' and s['kind'] != 'agen':
            return False
        if not all(0 <= i < len(H.ELEMS) for i in s['elems']):
            return False
        if s['kind'] in ('list', 'tuple', 'range') and (s.get('fail_at') is not None or s.get('delay')):
            return False
        if s.get('fail_at') is not None and not (0 <= s['fail_at'] <= len(s['elems'])):
            return False
        if s.get('fail_kind', 'exc') not in ('exc', 'cancel', 'base') or (s.get('fail_kind', 'exc') != 'exc' and s['kind'] != 'agen'):
            return False
        return s.get('delay', 0) >= 0 and case['cdelay'] >= 0 and case.get('loop', 'none') in ('none', 'fresh')
    except (KeyError, TypeError):
        return False


def _same_seq(a, b):
    # the source elements are singletons of the harness table or small immutables: identity first
    return len(a) == len(b) and all(x is y or (type(x) is type(y) and type(x) in (int, float, str, bool, tuple) and x == y)
                                    for x, y in zip(a, b))


def run_case(case):
    hist = H.run(case)
    died, harness = thread_exc_violations(hist['thread_excs'], V)
    if harness:
        raise HarnessError('thread exception in bridge harness: %r' % harness)
    viol = list(died)
    src = case['src']
    elems = hist['elems']
    f = src.get('fail_at')
    exp = elems if f is None else elems[:f]
    desc = f"{case['dir']} source {src['kind']} {elems!r} fail_at={f}"
    if hist['stop'] != 'finished':
        viol.append(V('hang', f"{desc}: run ended in {hist['stop']} after consuming {hist['got']!r}", 'hang'))
    else:
        if not _same_seq(hist['got'], exp):
            viol.append(V('wrong-sequence', f"{desc}: consumed {hist['got']!r}, expected {exp!r}",
                          'wrong-sequence:' + ('short' if len(hist['got']) < len(exp) else 'other')))
        if hist.get('elems2') is not None:
            if not _same_seq(hist['got2'], hist['elems2']) or hist['exc2'] is not None:
                viol.append(V('second-bridge', f"{desc}: a second bridge alive at the same time over {hist['elems2']!r} delivered "
                              f"{hist['got2']!r} and ended with {hist['exc2']!r}", 'second-bridge'))
        if f is not None:
            if hist['exc'] is not hist['boom']:
                viol.append(V('error-not-propagated', f"{desc}: consumer saw {hist['exc']!r} instead of the source's exception",
                              'error-lost' if hist['exc'] is None else 'error-changed'))
        elif hist['exc'] is not None:
            viol.append(V('spurious-error', f"{desc}: consumer got {hist['exc']!r}", 'spurious-error'))
        if hist.get('workers_alive_at_finish') or hist['workers_alive_at_end']:
            viol.append(V('helper-thread-left', f"{desc}: {hist['workers_alive_at_end']} helper thread(s) still alive after iteration "
                          f"finished", 'helper-thread-left'))
        # loop responsiveness: while a synchronous iterator is blocked the loop keeps ticking on schedule
        if case['dir'] == 's2a' and src['kind'] in ('gen', 'iter') and hist['finished_at'] is not None:
            start = hist['started']
            k = 0
            expected = []
            while start + k * TICK < hist['finished_at'] - 1e-9:      # a tick due exactly at the finish is a tie: not judged
                expected.append(start + k * TICK)
                k += 1
            late = [(e, t) for e, t in zip(expected, hist['ticks']) if abs(e - t) > 1e-9]
            if late or len(hist['ticks']) < len(expected):
                viol.append(V('loop-blocked', f"{desc} delay={src.get('delay')}: ticker scheduled every {TICK}s fired at "
                              f"{hist['ticks'][:10]} (expected {expected[:10]})", 'loop-blocked'))
    helper = src['kind'] in ('gen', 'iter', 'agen')
    nt = helper and (len(elems) >= 2 or (f is not None and f >= 1))
    cl = ['dir=' + case['dir'], 'kind=' + src['kind'], 'sched=' + case['sched']['mode']]
    if nt:
        cl.append('nontrivial')
    if f is not None:
        cl.append('fails')
    if any((not e) for e in elems if type(e) in (int, float, str, bool, tuple, type(None))):
        cl.append('falsy-element')
    if src.get('delay'):
        cl.append('slow-producer')
    if case.get('pair'):
        cl.append('two-bridges')
    if any(isinstance(e, BaseException) or isinstance(e, type) for e in elems):
        cl.append('exception-object-element')
    return Result(viol, nt, cl, H.abbreviate(hist), {'steps': hist['steps'], 'decisions': hist['decisions']})
