"""C19 - parse_to_dict matches its model, splits once, and never evaluates code.

Case (JSON):
  {'items': [{'k': FRAG, 'v': FRAG}, ...], 'render': 'mapping'|'pairs'|'strings',
   'sep': str, 'parse_keys': bool, 'parser': 'default' | {'exc': name, 'fail_on': [texts]}}
  FRAG = {'t': text, 'x': expected}     expected = strict repr of the value the text denotes,
                                          *known by construction* (never obtained from literal_eval),
                                          or None when the text is not a literal (stays unchanged)
       | {'obj': 'int'|'list'|'obj'|'none'|'float'}   a non-string object (pairs / mapping renderings only)
The tripwire object is published in builtins under TRIP and referenced by
non-literal fragments; any call / attribute / index / operator on it is recorded.
"""
import builtins
import json
import os
import subprocess
import sys
import time

from hypothesis import strategies as st

from vf.runner import Result, V, ROOT

ID = 'C19'
LEVEL = 'exploration'
TECHNIQUE = ('grammar-based property testing (Hypothesis) with expected values known by construction, metamorphic '
             'equivalence of the three input shapes, tripwire for code evaluation; coverage-guided fuzzing (atheris) '
             'of the same oracle in the thorough tier')
RULE = ('cases: 0-4 items built from a grammar of literal fragments (repr of generated values plus spelling variants) and '
        'non-literal fragments (names, calls, operators, comprehensions, f-strings, tripwire references, text with the separator), '
        'rendered as mapping / pair list / joined strings, sep from a set of 1-2 character strings, parse_keys on/off, '
        'default or raising custom parser; non-trivial: some item contains the separator more than once, or a non-literal '
        'expression, or a key whose type changes when parsed; distinct by case hash')
ASSUMPTIONS = ['keys whose literal is unhashable are not generated (TypeError from dict; statement is silent)',
               'NaN values are not generated (not comparable)',
               'custom parsers raise Exception subclasses']
BUDGET = {'quick': 600, 'thorough': 25000}
ESSENTIAL = ['nontrivial', 'render=strings', 'tripwire-referenced']

TRIP = '_vf_tripwire_7c1'


class Tripwire:
    def __init__(self):
        self.log = []

    def _hit(self, what):
        self.log.append(what)
        return self

    def __call__(self, *a, **k):
        return self._hit('call')

    def __getattr__(self, n):
        if n.startswith('__') and n.endswith('__'):
            raise AttributeError(n)
        return self._hit('getattr:' + n)

    def __getitem__(self, i):
        return self._hit('getitem')

    def __add__(self, o):
        return self._hit('add')

    __radd__ = __sub__ = __neg__ = __pos__ = __add__

    def __iter__(self):
        self._hit('iter')
        return iter(())

    def __format__(self, spec):
        self._hit('format')
        return 'T'

    def __bool__(self):
        self._hit('bool')
        return True

    def __hash__(self):
        return 7

    def __eq__(self, o):
        return o is self


def srepr(v):
    """Strict, order-normalised representation (distinguishes 1 / 1.0 / True)."""
    if isinstance(v, bool):
        return 'bool:%r' % v
    if v is None:
        return 'none'
    if isinstance(v, (int, float, complex, str, bytes)):
        return '%s:%r' % (type(v).__name__, v)
    if isinstance(v, tuple):
        return 'tuple(%s)' % ','.join(srepr(x) for x in v)
    if isinstance(v, list):
        return 'list(%s)' % ','.join(srepr(x) for x in v)
    if isinstance(v, (set, frozenset)):
        return '%s(%s)' % (type(v).__name__, ','.join(sorted(srepr(x) for x in v)))
    if isinstance(v, dict):
        return 'dict(%s)' % ','.join(sorted('%s=>%s' % (srepr(k), srepr(x)) for k, x in v.items()))
    return 'object:%s@%x' % (type(v).__name__, id(v))


# --- grammar ---------------------------------------------------------------
_scalars = st.one_of(
    st.integers(-1000, 1000), st.integers(-10**20, 10**20),
    st.floats(allow_nan=False, allow_infinity=False, width=32).map(float),
    st.sampled_from([0.0, 1.0, -1.5, 1e300, 5e-324, 0.1]),
    st.booleans(), st.none(),
    st.text(alphabet=st.sampled_from(list('ab=:-> ,\'"\\\n{}()x1')), max_size=6),
    st.text(max_size=4),
    # strings whose content is itself a literal (a parser applied twice would unwrap them)
    st.sampled_from(['1', '2.5', 'None', ' 7', '[1, 2]', "'q'", 'True', '(1,)', '"x"', '-1', '{1: 2}']),
    st.binary(max_size=3),
    st.builds(complex, st.integers(-3, 3), st.integers(1, 3)),
)
_hashable = st.recursive(_scalars, lambda c: st.one_of(st.tuples(c), st.tuples(c, c), st.frozensets(c, max_size=2).map(tuple)),
                         max_leaves=4)
_values = st.recursive(
    _scalars,
    lambda c: st.one_of(st.lists(c, max_size=3), st.lists(c, max_size=3).map(tuple),
                        st.dictionaries(_hashable, c, max_size=2),
                        st.sets(_hashable, min_size=1, max_size=3)),
    max_leaves=6)

# spelling variants whose value is known (each verified once by hand, see DESIGN C19)
_VARIANTS = [(' 1', 1), ('+1', 1), ('1_0', 10), ('0x10', 16), ('1e3', 1000.0), ('- 1', -1), ('1+2j', 1 + 2j),
             ('1,2', (1, 2)), ('(1)', 1), ('"a" "b"', 'ab'), ('b"x"', b'x'), ('1 ', 1), ('\t1', 1), ('set()', set()),
             ('1-2j', 1 - 2j), ('0b11', 3), ('0o17', 15), ('1.', 1.0), ('.5', 0.5), ('"""x"""', 'x'), ("r'\\n'", '\\n'),
             ('-0', 0), ('1,', (1,)), ('  (1, 2)', (1, 2)), ('1#c', 1), ("'a=b'", 'a=b'), ("'a:b'", 'a:b'),
             ('{1: 2}', {1: 2}), ('[1, [2, (3,)]]', [1, [2, (3,)]]), ('"="', '='), ("'->'", '->')]
_NONLIT = ['abc', 'a.b', 'f()', '1+1', '[x for x in ()]', "__import__('os')", 'a b', '', ' ', '1 2', 'nan', 'inf',
           '--1', '1/0', '2**3', '(1', '[1,', 'lambda: 1', '*', 'é', 'not True', '1 if 1 else 2', 'x=1', 'a=b=c',
           'k:v', '-"a"', '+None', 'f"{1}"', 'f"a"', '{**{}}', '[*()]', '1 < 2', 'True and False', '~1', '1j+1',
           '1_', '0x', 'None.x', '()()', '1;2', 'pass', '==', '->', 'a->b', "__import__('os').getpid()",
           'print(1)', 'exit()', '(' * 250 + ')' * 250,
           TRIP, TRIP + '()', TRIP + '.x', TRIP + '[0]', 'f"{' + TRIP + '()}"', '[' + TRIP + '() for _ in (1,)]',
           '-' + TRIP, TRIP + '+1', '(' + TRIP + '(),)', '{' + TRIP + '(): 1}', '[*' + TRIP + ']', TRIP + '.a.b(1)',
           '1 if ' + TRIP + ' else 2', TRIP + '=' + TRIP + '()', TRIP + '():' + TRIP + '.x']


def _hashable_value(v):
    try:
        hash(v)
        return True
    except TypeError:
        return False


def tree(v):
    """JSON encoding of a value, from which build() reconstructs it exactly
    (independent of any parser)."""
    if isinstance(v, bool):
        return {'bool': v}
    if v is None:
        return {'none': 1}
    if isinstance(v, int):
        return {'int': str(v)}
    if isinstance(v, float):
        return {'float': v.hex()}
    if isinstance(v, complex):
        return {'complex': [v.real.hex(), v.imag.hex()]}
    if isinstance(v, str):
        return {'str': v}
    if isinstance(v, bytes):
        return {'bytes': list(v)}
    if isinstance(v, tuple):
        return {'tuple': [tree(x) for x in v]}
    if isinstance(v, list):
        return {'list': [tree(x) for x in v]}
    if isinstance(v, (set, frozenset)):
        return {'set': sorted((tree(x) for x in v), key=lambda t: json.dumps(t, sort_keys=True))}
    if isinstance(v, dict):
        return {'dict': [[tree(k), tree(x)] for k, x in v.items()]}
    raise TypeError(v)


def build(t):
    (k, x), = t.items()
    if k == 'bool':
        return bool(x)
    if k == 'none':
        return None
    if k == 'int':
        return int(x)
    if k == 'float':
        return float.fromhex(x)
    if k == 'complex':
        return complex(float.fromhex(x[0]), float.fromhex(x[1]))
    if k == 'str':
        return x
    if k == 'bytes':
        return bytes(x)
    if k == 'tuple':
        return tuple(build(e) for e in x)
    if k == 'list':
        return [build(e) for e in x]
    if k == 'set':
        return {build(e) for e in x}
    if k == 'dict':
        return {build(a): build(b) for a, b in x}
    raise ValueError(t)


def _seal(t, x):
    import zlib
    return zlib.crc32((t + '\0' + json.dumps(x, sort_keys=True)).encode('utf-8', 'surrogatepass'))


def F(t, x, h=True):
    """A text fragment; 'c' seals (text, expected value) so that no minimisation step can make them disagree."""
    return {'t': t, 'x': x, 'h': h, 'c': _seal(t, x)}


def _lit(v):
    return F(repr(v), tree(v), _hashable_value(v))


_frag_lit = st.one_of(_values.map(_lit),
                      st.sampled_from(_VARIANTS).map(lambda tv: F(tv[0], tree(tv[1]), _hashable_value(tv[1]))))
_frag_non = st.sampled_from(_NONLIT).map(lambda t: F(t, None))
_frag_obj = st.sampled_from(['int', 'list', 'obj', 'none', 'float']).map(lambda k: {'obj': k})
_frag = st.one_of(_frag_lit, _frag_lit, _frag_non, _frag_non, _frag_obj)
_key = st.one_of(_frag_lit.filter(lambda f: f['h']), _frag_non, _frag_non,
                 st.sampled_from(['int', 'obj', 'none']).map(lambda k: {'obj': k}))


_OBJ_TEXT = {'int': ('12345678901', 12345678901), 'none': ('None', None)}


def _respell(f, render):
    """Other key fragments that denote the same parsed key as f (expected values known by construction)."""
    out = []
    if 'obj' in f:
        if f['obj'] in _OBJ_TEXT:
            t, v = _OBJ_TEXT[f['obj']]
            out.append(F(t, tree(v)))
        return out
    t = f['t']
    if f['x'] is not None:
        # a literal: surrounding blanks / parentheses do not change what it denotes
        out += [F(' ' + t, f['x'], f['h']), F(t + ' ', f['x'], f['h'])]
        if '#' not in t:      # (a trailing comment would swallow the closing parenthesis)
            out.append(F('(' + t + ')', f['x'], f['h']))
        if 'str' in f['x'] and f['x']['str'] not in _LITERAL_LOOKING and not _looks_literal(f['x']['str']):
            out.append(F(f['x']['str'], None))        # the bare text, which is not a literal
        if render != 'strings':
            for kind, (ot, ov) in _OBJ_TEXT.items():
                if f['x'] == tree(ov):
                    out.append({'obj': kind})
    elif t and not _looks_literal(t):
        # a non-literal text stays itself: the quoted literal denotes the same key
        out += [F(repr(t), tree(t)), F(' ' + repr(t), tree(t))]
    return out


_LITERAL_LOOKING = set()


def _looks_literal(text):
    """Could this text be a literal?  Conservative syntactic test that does not use any parser: only plain words made of
    letters that are not literal keywords are declared non-literal."""
    return not (text.isascii() and text.isalpha() and text not in ('None', 'True', 'False', 'nan', 'inf'))


@st.composite
def _case(draw):
    render = draw(st.sampled_from(['mapping', 'pairs', 'strings', 'strings']))
    n = draw(st.integers(0, 4))
    items = []
    for _ in range(n):
        k, v = draw(_key), draw(_frag)
        if render == 'strings':
            if 'obj' in k:
                k = draw(_frag_non)
            if 'obj' in v:
                v = draw(_frag_lit)
        items.append({'k': k, 'v': v})
    # repeated keys: the same raw text again, or another spelling that denotes the same key ('a' / "a" / ( 'a' ), 1 / ' 1' / (1))
    if items and draw(st.integers(0, 2)) == 0:
        src = draw(st.sampled_from(items))['k']
        for _ in range(draw(st.integers(1, 2))):
            k = draw(st.sampled_from([src] + _respell(src, render)))
            v = draw(_frag_lit if render == 'strings' else _frag)
            items.insert(draw(st.integers(0, len(items))), {'k': k, 'v': v})
        items = items[:5]
    sep = draw(st.sampled_from(['=', '=', ':', '==', '->', ' ', ',', 'a', '1']))
    parser = 'default'
    if draw(st.integers(0, 5)) == 0:
        texts = [f['t'] for it in items for f in (it['k'], it['v']) if 't' in f]
        fail = draw(st.lists(st.sampled_from(texts), max_size=3, unique=True)) if texts else []
        parser = {'exc': draw(st.sampled_from(['ValueError', 'KeyError', 'ZeroDivisionError', 'SyntaxError',
                                               'TypeError', 'RecursionError', 'AttributeError'])),
                  'fail_on': fail, 'noargs': draw(st.booleans())}
    return {'items': items, 'render': render, 'sep': sep, 'parse_keys': draw(st.booleans()), 'parser': parser,
            'explicit': draw(st.booleans())}


def strategy(tier):
    return _case()


def valid(case):
    try:
        for it in case['items']:
            for f in (it['k'], it['v']):
                if 'obj' in f:
                    if case['render'] == 'strings':
                        return False
                elif not isinstance(f['t'], str):
                    return False
                elif 'c' in f and f['c'] != _seal(f['t'], f['x']):
                    return False      # text and expected value no longer belong together
        return case['render'] in ('mapping', 'pairs', 'strings') and isinstance(case['sep'], str) and len(case['sep']) >= 1
    except (KeyError, TypeError):
        return False


class _Obj:
    pass


_SENT = ('mutated-by-caller',)


def _mutate_all(objs, skip, depth=0):
    """Modify in place every list / dict / set reachable from objs (through tuples too); -> number modified."""
    n = 0
    for o in objs:
        if id(o) in skip or depth > 6:
            continue
        if isinstance(o, list):
            n += 1 + _mutate_all(list(o), skip, depth + 1)
            o.append(_SENT)
        elif isinstance(o, dict):
            n += 1 + _mutate_all(list(o.values()), skip, depth + 1)
            o[_SENT] = 1
        elif isinstance(o, set):
            n += 1
            o.add(_SENT)
        elif isinstance(o, tuple):
            n += _mutate_all(list(o), skip, depth + 1)
    return n


def _mk_obj(kind):
    return {'int': 12345678901, 'list': [1, '2'], 'obj': _Obj(), 'none': None, 'float': 2.5}[kind]


def run_case(case):
    from aiuti.parsing import parse_to_dict
    trip = Tripwire()
    setattr(builtins, TRIP, trip)
    try:
        return _run(case, parse_to_dict, trip)
    finally:
        delattr(builtins, TRIP)


def _run(case, parse_to_dict, trip):
    viol = []
    sep = case['sep']
    pk = case['parse_keys']
    custom = case['parser'] != 'default'
    explicit = case.get('explicit', True)    # pass arguments that equal the documented defaults explicitly?
    kw = {}
    if not pk or explicit:
        kw['parse_keys'] = pk
    if sep != '=' or explicit:
        kw['sep'] = sep
    excs = {'ValueError': ValueError, 'KeyError': KeyError, 'ZeroDivisionError': ZeroDivisionError,
            'SyntaxError': SyntaxError, 'TypeError': TypeError, 'RecursionError': RecursionError,
            'AttributeError': AttributeError}
    parsed_marker = {}
    if custom:
        fail_on = set(case['parser']['fail_on'])
        exc = excs[case['parser']['exc']]

        noargs = bool(case['parser'].get('noargs'))

        def parser(s):
            if s in fail_on:
                raise exc() if noargs else exc(s)       # (an exception constructed without arguments is a failure too)
            return ('parsed', s)
        kw['parse'] = parser

    # materialise fragments
    def mat(f):
        return _mk_obj(f['obj']) if 'obj' in f else f['t']
    raw = [(mat(it['k']), mat(it['v']), it) for it in case['items']]

    def expect(f, obj, is_key):
        """Expected python value, known by construction (never from literal_eval)."""
        if 'obj' in f:
            return obj
        if is_key and not pk:
            return f['t']
        if custom:
            return f['t'] if f['t'] in fail_on else ('parsed', f['t'])
        return f['t'] if f['x'] is None else build(f['x'])

    render = case['render']
    expected_pairs = None     # [(expected key, expected value, value-is-identity)]
    meta_pairs = None         # metamorphic route: pairs to feed to the pair rendering
    if render == 'pairs':
        arg = [(k, v) for k, v, _ in raw]
        expected_pairs = [(expect(it['k'], k, True), expect(it['v'], v, False), 'obj' in it['v']) for k, v, it in raw]
    elif render == 'mapping':
        arg = {}
        frag = {}
        for k, v, it in raw:
            if k in arg:
                frag[k] = (frag[k][0], it['v'])
            else:
                frag[k] = (it['k'], it['v'])
            arg[k] = v
        expected_pairs = [(expect(frag[k][0], k, True), expect(frag[k][1], v, False), 'obj' in frag[k][1])
                          for k, v in arg.items()]
    else:
        arg = []
        expected_pairs = []
        meta_pairs = []
        for k, v, it in raw:
            text = k + sep + v
            arg.append(text)
            i = text.find(sep)
            k2, v2 = text[:i], text[i + len(sep):]
            if (k2, v2) == (k, v):
                expected_pairs.append((expect(it['k'], k, True), expect(it['v'], v, False), False))
                meta_pairs.append(None)
            else:
                expected_pairs.append(None)       # judged through the pair rendering of the reference split
                meta_pairs.append((k2, v2))
    model = None
    unhashable_key = False
    if not (meta_pairs and any(m is not None for m in meta_pairs)):
        model = {}
        ident = {}
        try:
            for ek, ev, is_obj in expected_pairs:
                model[ek] = ev
                ident[ek] = is_obj
        except TypeError:
            unhashable_key = True
            model = None

    try:
        got = parse_to_dict(arg, **kw)
    except Exception as e:  # noqa
        if unhashable_key and isinstance(e, TypeError):
            return Result([], False, ['unhashable-key-skipped'], None)
        viol.append(V('raised', f'parse_to_dict({arg!r}, **{ {k: v for k, v in kw.items() if k != "parse"} }) raised {e!r}',
                      'raised:' + type(e).__name__))
        got = None
    if trip.log:
        viol.append(V('evaluated-code', f'tripwire recorded {trip.log[:5]} for input {arg!r}', 'evaluated-code'))
    shown_kw = {k: v for k, v in kw.items() if k != 'parse'}
    if got is not None:
        if type(got) is not dict:
            viol.append(V('not-a-dict', f'returned {type(got).__name__}'))
        elif model is None and not unhashable_key:
            # metamorphic relation: the joined string must behave like the pair (reference split)
            ref_arg = [(m if m is not None else (k, v)) for m, (k, v, _) in zip(meta_pairs, raw)]
            try:
                ref = parse_to_dict(ref_arg, **kw)
            except Exception:  # noqa
                ref = None
            if ref is not None and [(srepr(a), srepr(b)) for a, b in ref.items()] != \
                    [(srepr(a), srepr(b)) for a, b in got.items()]:
                viol.append(V('split-position', f'{arg!r} with sep {sep!r} gave {got!r}; the pairs obtained by splitting '
                              f'at the first separator, {ref_arg!r}, give {ref!r}', 'split-position'))
        elif model is not None:
            gi, mi = list(got.items()), list(model.items())
            ok = len(gi) == len(mi)
            if ok:
                for (gk, gv), (mk, mv) in zip(gi, mi):
                    kk = (gk is mk) if not isinstance(mk, (str, int, float, complex, bytes, tuple, bool, type(None), frozenset)) \
                        else srepr(gk) == srepr(mk)
                    vv = (gv is mv) if ident[mk] else srepr(gv) == srepr(mv)
                    if not (kk and vv):
                        ok = False
                        break
            if not ok:
                viol.append(V('wrong-result', f'input {arg!r} kw={shown_kw} custom_parser={custom}: got {got!r}, '
                              f'model (by construction) {model!r}', 'wrong-result'))
    # the literal a string denotes does not depend on what an earlier caller did with an earlier result: mutate every
    # mutable container the first call produced (never the caller's own pass-through objects), parse again, compare
    if got is not None and type(got) is dict and not custom and not viol:
        passthrough = {id(o) for k, v, _ in raw for o in (k, v) if not isinstance(o, str)}
        before = [(srepr(a), srepr(b)) for a, b in got.items()]
        touched = _mutate_all(list(got.values()) + list(got.keys()), passthrough)
        if touched:
            try:
                again = parse_to_dict(arg, **kw)
                after = [(srepr(a), srepr(b)) for a, b in again.items()]
            except Exception as e:  # noqa
                after = repr(e)
            if after != before:
                viol.append(V('shared-literal', f'input {arg!r} kw={shown_kw}: first call gave {before!r}; after the caller '
                              f'modified the containers in that result in place, the same call gave {after!r}', 'shared-literal'))
    # a string item without the separator raises ValueError
    for nosep in ('zzz', '', 'z', 'zy', '12', '()', '[]', '""', '  ', 'zzzz', TRIP):
        if sep in nosep:
            continue
        try:
            r = parse_to_dict([nosep], **kw)
            viol.append(V('no-sep-accepted', f'string item {nosep!r} without separator {sep!r} was accepted: {r!r}', 'no-sep-accepted'))
        except ValueError:
            pass
        except Exception as e:  # noqa
            viol.append(V('no-sep-wrong-exc', f'string item {nosep!r} without separator raised {e!r} instead of ValueError',
                          'no-sep-wrong-exc'))

    texts = [f['t'] for it in case['items'] for f in (it['k'], it['v']) if 't' in f]
    multi_sep = render == 'strings' and any((k + sep + v).count(sep) > 1 for k, v, _ in raw)
    nonlit = any('t' in f and f['x'] is None for it in case['items'] for f in (it['k'], it['v']))
    keychange = pk and any('t' in it['k'] and it['k']['x'] is not None and 'str' not in it['k']['x']
                           for it in case['items'])
    nontrivial = bool(case['items']) and (multi_sep or nonlit or keychange)
    classes = ['render=' + render, 'parser=' + ('custom' if custom else 'default')]
    if nontrivial:
        classes.append('nontrivial')
    if multi_sep:
        classes.append('separator-repeated')
    if any(TRIP in t for t in texts):
        classes.append('tripwire-referenced')
    if len(case['items']) > (len(got) if isinstance(got, dict) else 99):
        classes.append('repeated-key')
    if meta_pairs and any(m is not None for m in meta_pairs):
        classes.append('key-contains-sep(metamorphic)')
    summary = {'arg': repr(arg)[:300], 'result': repr(got)[:300]}
    return Result(viol, nontrivial, classes, summary)


# --- atheris phase (thorough tier, shard 0) ----------------------------------
def extra(tier, seed_, col):
    if tier != 'thorough':
        return
    runs = 60000
    out = os.path.join(ROOT, 'replays', 'c19_fuzz')
    os.makedirs(out, exist_ok=True)
    stats_path = os.path.join(out, 'stats.json')
    for corpus_kind in ('empty', 'doctest'):
        import tempfile
        cdir = os.path.join(tempfile.gettempdir(), 'c19_corpus_%s_%d' % (corpus_kind, os.getpid()))
        subprocess.call(['rm', '-rf', cdir])
        os.makedirs(cdir)
        if os.path.exists(stats_path):
            os.remove(stats_path)
        env = dict(os.environ, PYTHONPATH=os.path.join(ROOT, '.deps') + ':/verif/.deps:' + ROOT,
                   C19_FUZZ_OUT=out, C19_CORPUS_KIND=corpus_kind)
        t0 = time.time()
        p = subprocess.run([sys.executable, '-m', 'vf.fuzz_c19', '-runs=%d' % runs, '-seed=%d' % (seed_ + 1),
                            '-max_len=512', '-timeout=30', cdir], capture_output=True, text=True, env=env, cwd=ROOT)
        subprocess.call(['rm', '-rf', cdir])
        note = {'corpus': corpus_kind, 'returncode': p.returncode, 'wall_s': round(time.time() - t0, 1)}
        if 'No module named' in p.stderr and 'atheris' in p.stderr:
            note['skipped'] = 'atheris not installed'
        if os.path.exists(stats_path):
            note.update(json.load(open(stats_path)))
        for ln in p.stderr.splitlines()[-3:]:
            if 'cov:' in ln:
                note['libfuzzer_last'] = ln.strip()[:200]
        col.notes.setdefault('atheris', []).append(note)
        col.stats['atheris_execs'] = col.stats.get('atheris_execs', 0) + note.get('execs', 0)
        col.stats['atheris_valid_cases'] = col.stats.get('atheris_valid_cases', 0) + note.get('valid', 0)
        fpath = os.path.join(out, 'violation.json')
        if os.path.exists(fpath):
            doc = json.load(open(fpath))
            os.remove(fpath)
            res = run_case(doc['case'])
            col.add(doc['case'], res)
