"""C05 - see DESIGN.md section 3 and vf/props/cache_oracles.py (oracle c05)."""
from vf.harness import cache as H
from vf.props import cache_common as G, cache_oracles as O
from vf.runner import Result, V
from vf.sim.kernel import HarnessError
from vf.sim.world import thread_exc_violations

ID = 'C05'
LEVEL = 'exploration'
ENGINE = 'vf'
TECHNIQUE = ('property-based testing (Hypothesis) of generated multi-loop programs x generated schedules '
             '(sparse/line-targeted/PCT/walk) under a deterministic simulation kernel; history-invariant oracle'
             '; plus eight enumerated real-thread cases (own process each): a cyclic garbage collection that starts inside the '
             'wrapper\'s locked block while abandoned computations of closed loops wait to be freed')
ASSUMPTIONS = ['cooperative shims (Lock, ThreadPoolExecutor, virtual-time loop) are faithful to the real primitives (vf/selftest)',
               'interleavings explored at source-line granularity of aiuti/asyncio.py and asyncio/runners.py',
               'wrapped function never swallows cancellation; loops are not restarted with a call pending except by asyncio.run shutdown']
CORPUS_PREEMPTIONS = {}
BUDGET = {'quick': 250, 'thorough': 5000}


def simplify(case):
    if case.get('kind') == 'gc':
        return iter(())
    return G.simplify(case)
RULE = ('cases: as C01 plus more failing/cancelled invocations, caller cancels/timeouts and loops stopped/closed mid-computation; '
        'oracle: no deadlock/livelock/horizon overrun, and stall accounting in virtual time (a caller pending in the wrapper while no '
        'invocation of its key is live on a running loop accrues stall; allowed 0, or 60 s per other-loop death while it was pending). '
        'non-trivial: a cross-loop waiter existed while a computation was open, or a loop exited with an invocation open and a '
        'foreign caller of that key present; distinct by case hash')
ESSENTIAL = ['cross-loop-wait', 'left-pending', 'inv-failed']


ENUM_EXHAUSTIVE = {'quick': 'every single-preemption schedule (decision index x target thread) of the canonical small programs in cache_common.canonical_programs',
                   'thorough': 'every single-preemption schedule of the canonical small programs'}


def enumerate_cases(tier, shard=0, nshards=1):
    return G.single_preemption_cases('c05', shard, nshards)


def strategy(tier):
    return G.case_strategy('c05')


GC_CASES = [{'kind': 'gc', 'abandoned': a, 'same_key': k, 'collect_at': n}
            for a in (1, 2) for k in (True, False) for n in (1, 2)]


def _run_gc(case):
    """A cyclic garbage collection starting inside the wrapper's locked block while abandoned computations of closed
    loops are waiting to be freed (real threads, own process): the later call must still finish."""
    import json
    import os
    import subprocess
    import sys
    from vf.runner import ROOT, REPO
    env = dict(os.environ, PYTHONPATH=ROOT + os.pathsep + os.environ.get('PYTHONPATH', ''))
    try:
        p = subprocess.run([sys.executable, '-m', 'vf.harness.gc_probe', json.dumps(case), REPO], capture_output=True, text=True,
                           timeout=60, env=env, cwd=ROOT)
        res = json.loads(p.stdout.strip().splitlines()[-1])
    except Exception as e:  # noqa
        raise HarnessError('gc probe failed: %r' % (e,))
    viol = []
    if not res['finished']:
        viol.append(V('hang', f"a call that allocates inside the wrapper's locked block while a garbage collection frees "
                      f"{case['abandoned']} abandoned computation(s) of closed loops never finished (not even its own 3 s timeout "
                      f"fired): {res}", 'hang:gc-inside-locked-block'))
    return Result(viol, True, ['kind=gc', 'nontrivial'], res)


def valid(case):
    if case.get('kind') == 'gc':
        return case.get('abandoned') in (1, 2) and case.get('collect_at') in (1, 2, 3) and isinstance(case.get('same_key'), bool)
    return G.valid(case)


def extra(tier, seed_, col):
    for case in GC_CASES:
        col.add(case, _run_gc(case))
        col.stats['gc_probes'] = col.stats.get('gc_probes', 0) + 1


def run_case(case):
    if case.get('kind') == 'gc':
        return _run_gc(case)
    hist = H.run(case)
    died, harness = thread_exc_violations(hist['thread_excs'], V)
    if harness:
        raise HarnessError('thread exception in cache harness: %r' % harness)
    viol = O.c05(case, hist) + died
    cl = G.structure(case, hist)
    nt = 'cross-loop-wait' in cl or ('take-over' in cl and 'multi-loop-key' in cl)
    if hist['stop'] == 'inconclusive':
        cl.append('inconclusive')
    if hist['stalls']:
        cl.append('some-stall-charged')
    return Result(viol, nt, cl, H.abbreviate(hist), {'steps': hist['steps'], 'decisions': hist['decisions']})
