"""C05 - see DESIGN.md section 3 and vf/props/cache_oracles.py (oracle c05)."""
from vf.harness import cache as H
from vf.props import cache_common as G, cache_oracles as O
from vf.runner import Result, V
from vf.sim.kernel import HarnessError
from vf.sim.world import thread_exc_violations

ID = 'C05'
LEVEL = 'exploration'
ENGINE = 'vf'
TECHNIQUE = ('property-based testing (Hypothesis) of generated multi-loop programs x generated schedules '
             '(sparse/line-targeted/PCT/walk) under a deterministic simulation kernel; history-invariant oracle')
ASSUMPTIONS = ['cooperative shims (Lock, ThreadPoolExecutor, virtual-time loop) are faithful to the real primitives (vf/selftest)',
               'interleavings explored at source-line granularity of aiuti/asyncio.py and asyncio/runners.py',
               'wrapped function never swallows cancellation; loops are not restarted with a call pending except by asyncio.run shutdown']
CORPUS_PREEMPTIONS = {}
BUDGET = {'quick': 250, 'thorough': 5000}
valid = G.valid
simplify = G.simplify
RULE = ('cases: as C01 plus more failing/cancelled invocations, caller cancels/timeouts and loops stopped/closed mid-computation; '
        'oracle: no deadlock/livelock/horizon overrun, and stall accounting in virtual time (a caller pending in the wrapper while no '
        'invocation of its key is live on a running loop accrues stall; allowed 0, or 60 s per other-loop death while it was pending). '
        'non-trivial: a cross-loop waiter existed while a computation was open, or a loop exited with an invocation open and a '
        'foreign caller of that key present; distinct by case hash')
ESSENTIAL = ['cross-loop-wait', 'left-pending', 'inv-failed']


ENUM_EXHAUSTIVE = {'quick': 'every single-preemption schedule (decision index x target thread) of the canonical small programs in cache_common.canonical_programs',
                   'thorough': 'every single-preemption schedule of the canonical small programs'}


def enumerate_cases(tier, shard=0, nshards=1):
    return G.single_preemption_cases('c05', shard, nshards)


def strategy(tier):
    return G.case_strategy('c05')


def run_case(case):
    hist = H.run(case)
    died, harness = thread_exc_violations(hist['thread_excs'], V)
    if harness:
        raise HarnessError('thread exception in cache harness: %r' % harness)
    viol = O.c05(case, hist) + died
    cl = G.structure(case, hist)
    nt = 'cross-loop-wait' in cl or ('take-over' in cl and 'multi-loop-key' in cl)
    if hist['stop'] == 'inconclusive':
        cl.append('inconclusive')
    if hist['stalls']:
        cl.append('some-stall-charged')
    return Result(viol, nt, cl, H.abbreviate(hist), {'steps': hist['steps'], 'decisions': hist['decisions']})
