"""C10 - batches respect size and concurrency limits, FIFO order and the batch timeout."""
from hypothesis import strategies as st

from vf.harness import batcher as H
from vf.props import batch_common as B
from vf.runner import Result

ID = 'C10'
LEVEL = 'exploration'
TECHNIQUE = ('property-based testing (Hypothesis) of arrival-time sequences on a tie-aware virtual-time grid; model-free batching '
             'invariants (no empty batch, size, concurrency, FIFO concatenation, burst sharing, dispatch deadline)')
RULE = ('cases: up to 12 distinct-key calls with gaps on a grid straddling batch_timeout, max_batch_size 1-5 (optionally mutated '
        'at a grid instant), max_concurrent_batches 1-3, batch durations 0 .. several batch_timeouts; comparisons within 1/128 s '
        'of a timer tie are skipped and counted. non-trivial: the run reaches the concurrency limit, or a burst is split because '
        'a batch filled, or two consecutive arrivals are within 2/64 s of batch_timeout apart; distinct by case hash')
ASSUMPTIONS = ['virtual-time loop is faithful (selftest)', 'exact timer ties are not judged (margin 1/128 s)']
BUDGET = {'quick': 300, 'thorough': 8000}
ESSENTIAL = ['nontrivial', 'reached-concurrency-limit', 'burst-split-by-full-batch']
valid = B.valid_case


@st.composite
def _case(draw):
    cfg = draw(B.cfg_strategy(rets=(0,)))
    bdur = draw(st.sampled_from([0, 3 * H.U, 10 * H.U, 30 * H.U]))
    calls = draw(B.timed_calls(12, cfg, bdur, B.NAMES, explicit_keys=False, unique=True))
    mutate = None
    if draw(st.integers(0, 2)) == 0:
        # the docs allow mutating max_batch_size while running (only the class exposes the attribute);
        # mostly a *lowering* shortly after some item was taken, so that later arrivals meet the new limit
        cfg = dict(cfg, form='class')
        lower = draw(st.integers(0, 3)) > 0 and cfg['mbs'] > 1
        mutate = {'at': draw(st.sampled_from([c['at'] for c in calls])) + draw(st.sampled_from([0, H.U, H.U, 2 * H.U, cfg['bt']])),
                  'mbs': draw(st.integers(1, cfg['mbs'] - 1)) if lower else draw(st.integers(1, 5))}
    return {'cfg': cfg, 'calls': calls, 'behave': {}, 'order': 'fwd', 'bdur': bdur, 'idur': 0, 'mutate': mutate, 'fresh': 0}


def strategy(tier):
    # half of the programs serve timers that fall on one virtual instant in an order decided by a generated seed
    return st.builds(lambda c, tie: dict(c, tie=tie) if tie else c, _case(), st.one_of(st.just(0), st.integers(1, 10 ** 6)))


def run_case(case):
    hist = H.run(case)
    viol, skipped = B.judge_limits(case, hist)
    viol += [v for v in B.judge_outcomes(hist) if v['kind'] == 'hang']
    cfg = case['cfg']
    cl = ['form=' + cfg['form']]
    reached = any(b['conc'] >= cfg['mcb'] for b in hist['batches']) and len(hist['batches']) > cfg['mcb']
    arr = sorted(c['arrived'] for c in hist['callers'] if c['arrived'] is not None)
    near = any(abs((b - a) - cfg['bt']) <= 2 * H.U for a, b in zip(arr, arr[1:]))
    split = False
    where = {i: b['id'] for b in hist['batches'] for _, i in b['items']}
    cs = sorted((c for c in hist['callers'] if c['arrived'] is not None), key=lambda c: c['seq'])
    for a, b in zip(cs, cs[1:]):
        if b['arrived'] - a['arrived'] < cfg['bt'] - H.U and where.get(a['i']) != where.get(b['i']):
            split = True
    nt = reached or split or near
    if nt:
        cl.append('nontrivial')
    if reached:
        cl.append('reached-concurrency-limit')
    if split:
        cl.append('burst-split-by-full-batch')
    if near:
        cl.append('gap-near-timeout')
    if case['mutate']:
        cl.append('limit-mutated')
    if skipped:
        cl.append('tie-skipped')
    return Result(viol, nt, cl, H.abbreviate(hist), {'steps': hist['steps'], 'tie_skips': skipped})
