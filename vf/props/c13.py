"""C13 - a crashed holder never leaves the FileLock stuck (real processes, SIGKILL at every crash point)."""
import os

from vf.harness import procs as P
from vf.runner import Result, V

ID = 'C13'
LEVEL = 'fault_enumeration'
TECHNIQUE = ('fault enumeration over real processes: a forked child SIGKILLs itself at the N-th source-line event of '
             'aiuti/filelock.py for every N the scenario executes (complete enumeration per scenario), with 0-2 live contender '
             'processes; post-mortem acquirability probe and survivor exclusion oracle (O_EXCL marker + counter file)')
RULE = ('cases: scenario in {blocking acquire/release, timed acquire, with, acquire_ctx, reentrant nested depth 2 + re-acquire, '
        'acquire while another descriptor holds the lock (polling), holder that spawned a helper process while holding, every unsuccessful way out of acquire, and blocking/timed/nested use of an object inherited through fork() from a live supervisor process that had used it before} x crash index N = 1..M (M = number of line events of '
        'aiuti/filelock.py the scenario executes on the current tree, measured by a counting run) x 0-2 contender processes; '
        'contenders keep going (timed / blocking / acquire_ctx rounds; the timed ones with their last poll sleep straddling the deadline; every fifth round a blocking acquire that is left by a KeyboardInterrupt injected into flock() exactly when flock() would have had to wait, followed by the ordinary retry on the same object) until the victim has been reaped, do three more rounds and then stay alive, idle, while a fresh FileLock probes the lock; non-trivial: the child was killed while is_locked was true or inside _acquire/_release/acquire/release; '
        'distinct by (scenario, N, contenders)')
ASSUMPTIONS = ['Linux flock semantics (descriptors are closed by the kernel before the parent reaps the child)',
               'wall-clock is only a hang guard (15 s); the verdict comes from the deterministic non-blocking probe',
               'the Windows branch is not executable here',
               'an interrupted wait is injected at the flock() call (no lock taken, a non-OSError propagates), not through a real signal: a real signal could also land after flock() returned, which is a different event']
BUDGET = {'quick': 0, 'thorough': 0}
SHARDS = {'quick': 16, 'thorough': 16}
ENUM_EXHAUSTIVE = {'quick': 'every crash index of every scenario with 0 contenders; every 3rd index with 1 contender, every 4th with 2',
                   'thorough': 'every crash index of every scenario with 0, 1 and 2 contenders'}
ESSENTIAL = ['nontrivial']

_counts = {}
_state = {'hangs': 0}


def _count(name):
    if name not in _counts:
        try:
            _counts[name] = P.count_events(name)
        except P.ScenarioHang:
            _counts[name] = -1
    return _counts[name]


def enumerate_cases(tier, shard=0, nshards=1):
    k = 0
    for name in P.SCENARIOS:
        m = _count(name)
        if m < 0:
            k += 1
            if k % nshards == shard:
                yield {'scenario': name, 'n': 1, 'contenders': 0, 'events_in_scenario': -1}
            continue
        for nc in (0, 1, 2):
            step = (3 if nc == 1 else 4) if (tier == 'quick' and nc) else 1
            for n in range(1, m + 1, step):
                k += 1
                if k % nshards == shard:
                    yield {'scenario': name, 'n': n, 'contenders': nc, 'events_in_scenario': m}


def valid(case):
    return case.get('scenario') in P.SCENARIOS and case.get('n', 0) >= 1 and case.get('contenders') in (0, 1, 2)


def run_case(case):
    if _state['hangs'] >= 2 and case['contenders']:
        # two cases already ended in the 15 s hang guard in this worker: the finding is established,
        # do not spend a quarter of a minute on each remaining contended case
        return Result([], False, ['skipped-after-hangs'], {'case': case})
    if case.get('events_in_scenario') == -1:
        return Result([V('scenario-hangs', f"scenario {case['scenario']} run alone on a fresh lock file (no crash, no contender) does "
                         f"not finish within {P.HANG_GUARD_S} s", 'scenario-hangs')], True, ['scenario=' + case['scenario']], None)
    r = P.crash_at(case['scenario'], case['n'], case['contenders'])
    if r['survivor_hung']:
        _state['hangs'] += 1
    viol = []
    desc = f"scenario {case['scenario']} killed at line event {case['n']} ({r['info']})"
    if r.get('supervisor_hung'):
        return Result([V('scenario-hangs', f"scenario {case['scenario']}: the supervisor's ordinary earlier use of the lock object, or the "
                         f"victim forked from it, did not finish within {P.HANG_GUARD_S} s", 'scenario-hangs')], True,
                      ['scenario=' + case['scenario']], {'case': case})
    if not r['killed']:
        # the scenario finished before reaching event n (counting run and victim run differ): nothing to judge
        return Result([], False, ['not-killed'], {'case': case, 'result': r})
    if r.get('probe_before_reaping_ok') is False:
        viol.append(V('lock-stuck', f"{desc}: the victim was dead but not yet reaped by its parent (a zombie), nobody else was "
                      f"contending, and a fresh FileLock could not acquire the lock file", 'lock-stuck:before-reaping'))
    if not r['probe_ok']:
        viol.append(V('lock-stuck', f"{desc}: after the victim was reaped a fresh FileLock could not acquire the lock file",
                      'lock-stuck'))
    if r['survivor_hung']:
        viol.append(V('survivor-hung', f"{desc}: a contender did not finish its rounds within the hang guard", 'survivor-hung'))
    surv = [s for s in r['survivors'] if s]
    if any(s.get('inconsistent') for s in surv):
        viol.append(V('survivor-inconsistent', f"{desc}: a survivor's acquire reported failure while its is_locked was true, or its is_locked was still true after its release "
                      f"({surv})", 'survivor-inconsistent'))
    if any(s['clashes'] for s in surv):
        viol.append(V('survivor-overlap', f"{desc}: survivors overlapped inside the protected section ({surv})", 'survivor-overlap'))
    if surv and r['counter'] != sum(s['done'] for s in surv):
        viol.append(V('survivor-lost-update', f"{desc}: counter {r['counter']} != sections {sum(s['done'] for s in surv)}",
                      'survivor-lost-update'))
    if len(surv) != case['contenders']:
        viol.append(V('survivor-died', f"{desc}: {case['contenders'] - len(surv)} contender(s) left no result", 'survivor-died'))
    info = r['info']
    nt = bool(info.get('locked')) or info.get('func') in ('_acquire', '_release', 'acquire', 'release', '_lock', '_unlock')
    cl = ['scenario=' + case['scenario'], 'contenders=%d' % case['contenders']] + (['nontrivial'] if nt else [])
    if info.get('locked'):
        cl.append('killed-while-locked')
    if any(s.get('interrupts') for s in surv):
        cl.append('survivor-interrupted-while-waiting')
    return Result(viol, nt, cl, {'killed_in': info, 'probe_ok': r['probe_ok'], 'probe_wait_s': round(r['probe_wait_s'], 5),
                                 'survivors': surv})


def extra(tier, seed_, col):
    """Report which executable lines of the Unix path the scenarios reach (so "every reachable line" is measurable)."""
    want = P.executable_lines()
    seen = set()
    per = {}
    for name in P.SCENARIOS:
        try:
            n, lines = P.count_events(name, want_lines=True)
        except P.ScenarioHang:
            n, lines = -1, set()
        per[name] = n
        seen |= lines
    missing = sorted(want - seen)
    col.notes['crash_point_line_coverage'] = [{
        'executable_lines_unix_path': len(want), 'lines_reached_by_scenarios': len(want & seen),
        'not_reached': missing, 'line_events_per_scenario': per}]
