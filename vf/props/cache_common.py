"""Shared generator for the threadsafe_async_cache properties (C01, C05, C06)."""
import functools

from hypothesis import strategies as st

from vf.harness import cache as H
from vf.sim.schedules import schedule_strategy, schedule_valid

U = 1 / 64
DURS = [-1, 0, U, 0.25, 1.0, 2.0]


@functools.lru_cache(None)
def executed_lines():
    """Lines of the traced files that the *current working tree* executes for
    this program family (dry runs; never hard-coded)."""
    lines = set()
    base_threads = [
        {'runner': 'run', 'callers': [{'at': 0, 'key': 'a', 'cancel': None, 'timeout': None}],
         'end': {'mode': 'leave', 'at': 0.5}},
        {'runner': 'run', 'callers': [{'at': 0.25, 'key': 'a', 'cancel': None, 'timeout': None},
                                      {'at': 0.25, 'key': 'a', 'cancel': 0.5, 'timeout': None}],
         'end': {'mode': 'await', 'at': 0}},
        {'runner': 'manual', 'callers': [{'at': 0.75, 'key': 'a', 'cancel': None, 'timeout': 0.25}],
         'end': {'mode': 'await', 'at': 0}},
    ]
    for plans in ([{'dur': 1.0, 'outcome': 'ret'}], [{'dur': 0.25, 'outcome': 'raise'}, {'dur': 0, 'outcome': 'ret'}]):
        for sched in ({'mode': 'none'}, {'mode': 'pct', 'prio': [3, 1, 2, 0, 4, 5, 6, 7], 'cps': [50, 200]}):
            h = H.run({'cache': 'default', 'threads': base_threads, 'plans': plans, 'sched': sched})
            lines |= h['lines']
    return sorted([f, l] for f, l in lines)


@st.composite
def program(draw, emphasis='c01'):
    d0 = draw(st.sampled_from(DURS))
    L = draw(st.sampled_from([0, 0.25, 0.5, 1.0]))
    lm = sorted({0, L, max(d0, 0), L + max(d0, 0)})

    def when():
        return max(0.0, draw(st.sampled_from(lm)) + draw(st.sampled_from([0, 0, 0, U, -U, 0.25])))

    fail_p = {'c01': 1, 'c05': 2, 'c06': 3}[emphasis]
    plans = [{'dur': d0, 'outcome': draw(st.sampled_from(['ret'] * 6 + ['raise'] * fail_p))}]
    for _ in range(draw(st.integers(0, 4))):
        plans.append({'dur': draw(st.sampled_from(DURS)),
                      'outcome': draw(st.sampled_from(['ret'] * 4 + ['raise'] * fail_p))})
    nthreads = draw(st.integers(2, 4))
    two_keys = draw(st.integers(0, 5)) == 0
    threads = []
    for i in range(nthreads):
        ncall = draw(st.integers(1, 3 if nthreads < 4 else 2))
        callers = []
        for _ in range(ncall):
            at = 0.0 if (i == 0 and not callers) else when()
            interfere = draw(st.integers(0, 9))
            cancel = timeout = None
            lim = {'c01': 1, 'c05': 3, 'c06': 4}[emphasis]
            if interfere < lim:
                cancel = at + draw(st.sampled_from([0, U, 0.25, max(d0, 0), max(d0, 0) + U]))
            elif interfere < lim + (0 if emphasis == 'c01' else 2):
                timeout = draw(st.sampled_from([U, 0.25, 1.0]))
            callers.append({'at': at, 'key': draw(st.sampled_from('ab')) if two_keys else 'a',
                            'cancel': cancel, 'timeout': timeout})
        callers.sort(key=lambda c: c['at'])
        if i == 0:
            mode = draw(st.sampled_from(['leave', 'leave', 'await', 'stop']))
            end_at = L
        else:
            mode = draw(st.sampled_from(['await', 'await', 'await', 'leave', 'stop']))
            end_at = when()
        runner = draw(st.sampled_from(['run', 'run', 'run', 'manual'] if emphasis == 'c01'
                                      else ['run', 'run', 'run', 'manual', 'resume']))
        th = {'runner': runner, 'callers': callers, 'end': {'mode': mode, 'at': end_at}}
        if runner == 'resume':
            # (C01 excludes restarting a loop with a call pending; C05/C06 do not)
            th['pause'] = draw(st.sampled_from([U, 0.25, 1.0, 70.0]))
            if mode == 'await':
                th['end'] = {'mode': draw(st.sampled_from(['leave', 'stop'])), 'at': end_at}
        threads.append(th)
    return {'cache': draw(st.sampled_from(['default', 'default', 'mapping'])),
            'threads': threads, 'plans': plans}


def case_strategy(emphasis):
    lines = executed_lines()
    sched = schedule_strategy(max_decision=900, lines=lines, nthreads=4, walk_len=400)
    return st.builds(lambda p, s: dict(p, sched=s), program(emphasis), sched)


def structure(case, hist):
    """Class labels describing what the case actually exercised."""
    cl = ['sched=' + case['sched']['mode']]
    invs = hist['invs']
    callers = hist['callers']
    loops_per_key = {}
    for cid, c in callers.items():
        if c['arrived'] is not None:
            loops_per_key.setdefault(c['key'], set()).add(cid[0])
    if any(len(v) >= 2 for v in loops_per_key.values()):
        cl.append('multi-loop-key')
    # cross-loop wait: a caller arrived while another loop's invocation of its key was open
    cross = False
    takeover = False
    for cid, c in callers.items():
        if c['arrived'] is None:
            continue
        a = c['arrived'][1]
        for r in invs:
            if r['key'] == c['key'] and r['caller'] is not None and r['caller'][0] != cid[0] \
                    and r['enter'][1] <= a and (r['exit'] is None or r['exit'][1] > a):
                cross = True
    for r in invs:
        for q in invs:
            if q['id'] < r['id'] and q['key'] == r['key'] and (q['exit'] is None or q['exit'][1] > r['enter'][1]):
                takeover = True   # r entered while q was still open (dead-marker take-over, or overlap)
    if cross:
        cl.append('cross-loop-wait')
    if takeover:
        cl.append('take-over')
    if any(p['dur'] <= 0 for p in case['plans'][:max(1, len(invs))]):
        cl.append('zero-duration')
    if any(c['left_pending'] for c in callers.values()):
        cl.append('left-pending')
    if any(r['kind'] == 'raise' for r in invs):
        cl.append('inv-failed')
    if any(r['kind'] == 'cancel' for r in invs):
        cl.append('inv-cancelled')
    if any(c['cancel_req'] for c in callers.values()):
        cl.append('caller-cancelled')
    if any(t['runner'] == 'manual' for t in case['threads']):
        cl.append('manual-close')
    if any(t['runner'] == 'resume' for t in case['threads']):
        cl.append('loop-resumed')
    if hist['forced']:
        cl.append('schedule-deviated')
    return cl


def valid(case):
    """Domain check used by the shrinker: any case passing this is one the
    oracles judge soundly (they do not depend on thread/caller counts)."""
    try:
        if not case['threads'] or not case['plans'] or not schedule_valid(case['sched']):
            return False
        for p in case['plans']:
            if p['outcome'] not in ('ret', 'raise') or not (-1 <= p['dur'] <= 2):
                return False
        for t in case['threads']:
            if t['runner'] not in ('run', 'manual', 'resume') or t['end']['mode'] not in ('await', 'leave', 'stop'):
                return False
            if t.get('pause', 0) < 0:
                return False
            if t['end']['at'] < 0:
                return False
            for c in t['callers']:
                if c['at'] < 0 or c['key'] not in ('a', 'b'):
                    return False
                if c['cancel'] is not None and c['cancel'] < 0:
                    return False
                if c['timeout'] is not None and c['timeout'] <= 0:
                    return False
        return case['cache'] in ('default', 'mapping')
    except (KeyError, TypeError, IndexError):
        return False


def simplify(case):
    """Domain-specific simplifications tried before the generic ones."""
    import copy
    for ti, t in enumerate(case['threads']):
        for ci, c in enumerate(t['callers']):
            for fld in ('cancel', 'timeout'):
                if c[fld] is not None:
                    n = copy.deepcopy(case)
                    n['threads'][ti]['callers'][ci][fld] = None
                    yield n
        if t['runner'] in ('manual', 'resume'):
            n = copy.deepcopy(case)
            n['threads'][ti]['runner'] = 'run'
            yield n
        if t['end']['mode'] != 'await':
            n = copy.deepcopy(case)
            n['threads'][ti]['end'] = {'mode': 'await', 'at': 0}
            yield n
    if case['cache'] != 'default':
        yield dict(copy.deepcopy(case), cache='default')
    for pi, p in enumerate(case['plans']):
        if p['outcome'] == 'raise':
            n = copy.deepcopy(case)
            n['plans'][pi]['outcome'] = 'ret'
            yield n
