"""Shared generator for the threadsafe_async_cache properties (C01, C05, C06)."""
import functools

from hypothesis import strategies as st

from vf.harness import cache as H
from vf.sim.schedules import schedule_strategy, schedule_valid

U = 1 / 64
DURS = [-1, 0, U, 0.25, 1.0, 2.0]
LONG = 70.0      # a computation that outlasts the 60 s safety wait of its waiters


@functools.lru_cache(None)
def executed_lines():
    """Lines of the traced files that the *current working tree* executes for
    this program family (dry runs; never hard-coded)."""
    lines = set()
    base_threads = [
        {'runner': 'run', 'callers': [{'at': 0, 'key': 'a', 'cancel': None, 'timeout': None}],
         'end': {'mode': 'leave', 'at': 0.5}},
        {'runner': 'run', 'callers': [{'at': 0.25, 'key': 'a', 'cancel': None, 'timeout': None},
                                      {'at': 0.25, 'key': 'a', 'cancel': 0.5, 'timeout': None}],
         'end': {'mode': 'await', 'at': 0}},
        {'runner': 'manual', 'callers': [{'at': 0.75, 'key': 'a', 'cancel': None, 'timeout': 0.25}],
         'end': {'mode': 'await', 'at': 0}},
    ]
    for plans in ([{'dur': 1.0, 'outcome': 'ret'}], [{'dur': 0.25, 'outcome': 'raise'}, {'dur': 0, 'outcome': 'ret'}]):
        for sched in ({'mode': 'none'}, {'mode': 'pct', 'prio': [3, 1, 2, 0, 4, 5, 6, 7], 'cps': [50, 200]}):
            h = H.run({'cache': 'default', 'threads': base_threads, 'plans': plans, 'sched': sched})
            lines |= h['lines']
    return sorted([f, l] for f, l in lines)


@functools.lru_cache(None)
def hit_lines():
    """Lines of aiuti/asyncio.py executed by a call that is served from the cache (dry run on the current tree):
    the fast path, where a preemption must land to race a lookup against another key's store."""
    th = [{'runner': 'run', 'callers': [{'at': 0, 'key': 'a', 'cancel': None, 'timeout': None}], 'end': {'mode': 'await', 'at': 0}}]
    base = H.run({'cache': 'mapping', 'threads': th, 'plans': [{'dur': 0.25, 'outcome': 'ret'}], 'sched': {'mode': 'none'}})['lines']
    th2 = [{'runner': 'run', 'callers': [{'at': 0, 'key': 'a', 'cancel': None, 'timeout': None},
                                         {'at': 1.0, 'key': 'a', 'cancel': None, 'timeout': None}], 'end': {'mode': 'await', 'at': 0}}]
    both = H.run({'cache': 'mapping', 'threads': th2, 'plans': [{'dur': 0.25, 'outcome': 'ret'}], 'sched': {'mode': 'none'}})['lines']
    wrapper = [[f, l] for f, l in sorted(both) if f == 'asyncio.py']
    # the hit path is a prefix of the wrapper body: keep the first dozen wrapper lines (by line number)
    first = min(l for f, l in wrapper) if wrapper else 0
    return [[f, l] for f, l in wrapper if first <= l <= first + 40][:14]


@st.composite
def evict_race(draw):
    """Bounded cache (one entry), key a cached by thread 0 and asked for again at the very instant thread 1's
    computation of key b is stored - the lookup races the eviction."""
    d0 = draw(st.sampled_from([0, U, 0.25]))
    d1 = draw(st.sampled_from([0.25, 1.0]))
    tb = draw(st.sampled_from([0.25, 0.5, 1.0]))
    t2 = tb + d1 + draw(st.sampled_from([0, 0, 0, U, -U]))
    threads = [
        {'runner': 'run', 'callers': [{'at': 0.0, 'key': 'a', 'cancel': None, 'timeout': None},
                                      {'at': t2, 'key': 'a', 'cancel': None, 'timeout': None}] +
         ([{'at': t2, 'key': 'a', 'cancel': None, 'timeout': None}] if draw(st.booleans()) else []),
         'end': {'mode': 'await', 'at': 0}},
        {'runner': 'run', 'callers': [{'at': tb, 'key': 'b', 'cancel': None, 'timeout': None}], 'end': {'mode': 'await', 'at': 0}}]
    if draw(st.booleans()):
        threads.append({'runner': 'run', 'callers': [{'at': t2, 'key': 'a', 'cancel': None, 'timeout': None}],
                        'end': {'mode': 'await', 'at': 0}})
    return {'cache': 'lru1', 'threads': threads,
            'plans': [{'dur': d0, 'outcome': 'ret'}, {'dur': d1, 'outcome': 'ret'}, {'dur': draw(st.sampled_from([0, U, 0.25])), 'outcome': 'ret'}]}


@st.composite
def program(draw, emphasis='c01'):
    d0 = draw(st.sampled_from(DURS + [LONG])) if draw(st.integers(0, 5)) == 0 else draw(st.sampled_from(DURS))
    L = draw(st.sampled_from([0, 0.25, 0.5, 1.0]))
    lm = sorted({0, L, max(d0, 0), L + max(d0, 0)})

    def when():
        return max(0.0, draw(st.sampled_from(lm)) + draw(st.sampled_from([0, 0, 0, U, -U, 0.25])))

    fail_p = {'c01': 1, 'c05': 2, 'c06': 3}[emphasis]
    sync_p = 0 if emphasis == 'c01' else 1
    plans = [{'dur': d0, 'outcome': draw(st.sampled_from(['ret'] * 6 + ['raise'] * fail_p + ['raise_sync'] * sync_p + ['raise_base'] * min(fail_p, 1)))}]
    for _ in range(draw(st.integers(0, 4))):
        plans.append({'dur': draw(st.sampled_from(DURS)),
                      'outcome': draw(st.sampled_from(['ret'] * 4 + ['raise'] * fail_p + ['raise_sync'] * sync_p + ['raise_base'] * min(fail_p, 1)))})
    for p_ in plans:
        if p_['outcome'] == 'ret' and draw(st.integers(0, 5)) == 0:
            p_['outcome'] = draw(st.sampled_from(['ret_none', 'ret_any']))   # the result is None / equal to everything
        if draw(st.integers(0, 5)) == 0:
            p_['cleanup'] = draw(st.sampled_from([U, 0.25, 0.5]))     # takes this long to honour a cancellation
        if p_['outcome'] != 'raise_sync' and draw(st.integers(0, 7)) == 0:
            # re-entrant use: the computation itself asks the cached function for its own key, with a timeout
            p_['nested'] = draw(st.sampled_from([0, U, 0.25]))
    nthreads = draw(st.integers(2, 4))
    two_keys = draw(st.integers(0, 5)) == 0
    threads = []
    for i in range(nthreads):
        ncall = draw(st.integers(1, 3 if nthreads < 4 else 2))
        callers = []
        for _ in range(ncall):
            at = 0.0 if (i == 0 and not callers) else when()
            interfere = draw(st.integers(0, 9))
            cancel = timeout = None
            lim = {'c01': 1, 'c05': 3, 'c06': 4}[emphasis]
            if interfere < lim:
                cancel = at + draw(st.sampled_from([0, U, 0.25, max(d0, 0), max(d0, 0) + U]))
            elif interfere < lim + (0 if emphasis == 'c01' else 2):
                timeout = draw(st.sampled_from([U, 0.25, 1.0]))
            callers.append({'at': at, 'key': draw(st.sampled_from('ab')) if two_keys else 'a',
                            'cancel': cancel, 'timeout': timeout})
        callers.sort(key=lambda c: c['at'])
        if i == 0:
            mode = draw(st.sampled_from(['leave', 'leave', 'await', 'stop', 'cancel-all']))
            end_at = L
        else:
            mode = draw(st.sampled_from(['await', 'await', 'await', 'leave', 'stop', 'cancel-all']))
            end_at = when()
        runner = draw(st.sampled_from(['run', 'run', 'run', 'manual'] if emphasis == 'c01'
                                      else ['run', 'run', 'run', 'manual', 'resume']))
        th = {'runner': runner, 'callers': callers, 'end': {'mode': mode, 'at': end_at}}
        if runner == 'resume':
            # (C01 excludes restarting a loop with a call pending; C05/C06 do not)
            th['pause'] = draw(st.sampled_from([U, 0.25, 1.0, 70.0]))
            if mode == 'await':
                th['end'] = {'mode': draw(st.sampled_from(['leave', 'stop'])), 'at': end_at}
        threads.append(th)
    caches = ['default', 'default', 'mapping'] if emphasis == 'c01' else ['default', 'default', 'mapping', 'lru1']
    cache = draw(st.sampled_from(caches))
    if cache == 'lru1':
        # a bounded cache is only interesting when two keys evict each other
        for t in threads:
            for c in t['callers']:
                c['key'] = draw(st.sampled_from('ab'))
    return {'cache': cache, 'threads': threads, 'plans': plans}


def case_strategy(emphasis):
    lines = executed_lines()
    sched = schedule_strategy(max_decision=900, lines=lines, nthreads=4, walk_len=400,
                              modes=('sparse', 'line', 'pct', 'walk', 'none') + (('stall',) if emphasis == 'c01' else ()))
    main = st.builds(lambda p, s: dict(p, sched=s), program(emphasis), sched)
    if emphasis == 'c01':
        return main
    race_sched = schedule_strategy(max_decision=300, lines=hit_lines(), nthreads=3, walk_len=120,
                                   modes=('line', 'line', 'line', 'sparse', 'pct'))
    race = st.builds(lambda p, s: dict(p, sched=s), evict_race(), race_sched)
    return st.one_of(main, main, main, main, main, race)


def structure(case, hist):
    """Class labels describing what the case actually exercised."""
    cl = ['sched=' + case['sched']['mode']]
    invs = hist['invs']
    callers = hist['callers']
    loops_per_key = {}
    for cid, c in callers.items():
        if c['arrived'] is not None:
            loops_per_key.setdefault(c['key'], set()).add(cid[0])
    if any(len(v) >= 2 for v in loops_per_key.values()):
        cl.append('multi-loop-key')
    # cross-loop wait: a caller arrived while another loop's invocation of its key was open
    cross = False
    takeover = False
    for cid, c in callers.items():
        if c['arrived'] is None:
            continue
        a = c['arrived'][1]
        for r in invs:
            if r['key'] == c['key'] and r['caller'] is not None and r['caller'][0] != cid[0] \
                    and r['enter'][1] <= a and (r['exit'] is None or r['exit'][1] > a):
                cross = True
    for r in invs:
        for q in invs:
            if q['id'] < r['id'] and q['key'] == r['key'] and (q['exit'] is None or q['exit'][1] > r['enter'][1]):
                takeover = True   # r entered while q was still open (dead-marker take-over, or overlap)
    if cross:
        cl.append('cross-loop-wait')
    if takeover:
        cl.append('take-over')
    if any(p['dur'] <= 0 for p in case['plans'][:max(1, len(invs))]):
        cl.append('zero-duration')
    if any(c['left_pending'] for c in callers.values()):
        cl.append('left-pending')
    if any(r['kind'] == 'raise' for r in invs):
        cl.append('inv-failed')
    if case['cache'] == 'lru1':
        cl.append('evicting-cache')
    if any(p['dur'] == LONG for p in case['plans'][:max(1, len(invs))]):
        cl.append('computation-longer-than-60s')
    if any(r['kind'] == 'cancel' for r in invs):
        cl.append('inv-cancelled')
    if any(c['cancel_req'] for c in callers.values()):
        cl.append('caller-cancelled')
    if any(t['runner'] == 'manual' for t in case['threads']):
        cl.append('manual-close')
    if any(t['runner'] == 'resume' for t in case['threads']):
        cl.append('loop-resumed')
    if hist['forced']:
        cl.append('schedule-deviated')
    return cl


def valid(case):
    """Domain check used by the shrinker: any case passing this is one the
    oracles judge soundly (they do not depend on thread/caller counts)."""
    try:
        if not case['threads'] or not case['plans'] or not schedule_valid(case['sched']):
            return False
        for p in case['plans']:
            if p.get('nested') is not None and not (0 <= p['nested'] <= 1):
                return False
            if not (0 <= p.get('cleanup', 0) <= 2):
                return False
            if p['outcome'] not in ('ret', 'ret_none', 'ret_any', 'raise', 'raise_sync', 'raise_base') or not (-1 <= p['dur'] <= 2 or p['dur'] == LONG):
                return False
        for t in case['threads']:
            if t['runner'] not in ('run', 'manual', 'resume') or t['end']['mode'] not in ('await', 'leave', 'stop', 'cancel-all'):
                return False
            if t.get('pause', 0) < 0:
                return False
            if t['end']['at'] < 0:
                return False
            for c in t['callers']:
                if c['at'] < 0 or c['key'] not in ('a', 'b'):
                    return False
                if c['cancel'] is not None and c['cancel'] < 0:
                    return False
                if c['timeout'] is not None and c['timeout'] <= 0:
                    return False
        return case['cache'] in ('default', 'mapping', 'lru1')
    except (KeyError, TypeError, IndexError):
        return False


def simplify(case):
    """Domain-specific simplifications tried before the generic ones."""
    import copy
    for ti, t in enumerate(case['threads']):
        for ci, c in enumerate(t['callers']):
            for fld in ('cancel', 'timeout'):
                if c[fld] is not None:
                    n = copy.deepcopy(case)
                    n['threads'][ti]['callers'][ci][fld] = None
                    yield n
        if t['runner'] in ('manual', 'resume'):
            n = copy.deepcopy(case)
            n['threads'][ti]['runner'] = 'run'
            yield n
        if t['end']['mode'] != 'await':
            n = copy.deepcopy(case)
            n['threads'][ti]['end'] = {'mode': 'await', 'at': 0}
            yield n
    if case['cache'] != 'default':
        yield dict(copy.deepcopy(case), cache='default')
    for pi, p in enumerate(case['plans']):
        if p.get('nested') is not None:
            n = copy.deepcopy(case)
            del n['plans'][pi]['nested']
            yield n
        if p['outcome'] in ('raise', 'raise_sync', 'raise_base'):
            n = copy.deepcopy(case)
            n['plans'][pi]['outcome'] = 'ret'
            yield n


# ---- bounded schedule enumeration for a few canonical small programs -------------------------------------
def _c(at, key='a', cancel=None, timeout=None):
    return {'at': at, 'key': key, 'cancel': cancel, 'timeout': timeout}


def canonical_programs(emphasis):
    aw = {'mode': 'await', 'at': 0}
    progs = [
        # take-over of a dead marker, third caller arriving while the new owner computes
        {'cache': 'default', 'plans': [{'dur': 1.0, 'outcome': 'ret'}],
         'threads': [{'runner': 'run', 'callers': [_c(0.0)], 'end': {'mode': 'leave', 'at': 0.5}},
                     {'runner': 'run', 'callers': [_c(0.5)], 'end': aw}, {'runner': 'run', 'callers': [_c(0.75)], 'end': aw}]},
        # cross-loop waiters and a failing first computation
        {'cache': 'default', 'plans': [{'dur': 0.5, 'outcome': 'raise'}, {'dur': 0.25, 'outcome': 'ret'}],
         'threads': [{'runner': 'run', 'callers': [_c(0.0)], 'end': aw}, {'runner': 'run', 'callers': [_c(0.25), _c(0.25)], 'end': aw}]},
        # a waiter is cancelled while another keeps waiting
        {'cache': 'mapping', 'plans': [{'dur': 0.5, 'outcome': 'ret'}],
         'threads': [{'runner': 'run', 'callers': [_c(0.0)], 'end': aw}, {'runner': 'run', 'callers': [_c(U, cancel=0.25)], 'end': aw},
                     {'runner': 'run', 'callers': [_c(0.25)], 'end': aw}]},
        # computing loop closed with the computation pending, waiter on another loop
        {'cache': 'default', 'plans': [{'dur': 1.0, 'outcome': 'ret'}, {'dur': 0.25, 'outcome': 'ret'}],
         'threads': [{'runner': 'manual', 'callers': [_c(0.0)], 'end': {'mode': 'leave', 'at': 0.25}},
                     {'runner': 'run', 'callers': [_c(U)], 'end': aw}]},
    ]
    if emphasis != 'c01':
        progs += [
            # bounded cache: a lookup of key a racing the store of key b
            {'cache': 'lru1', 'plans': [{'dur': 0.25, 'outcome': 'ret'}, {'dur': 1.0, 'outcome': 'ret'}, {'dur': 0, 'outcome': 'ret'}],
             'threads': [{'runner': 'run', 'callers': [_c(0.0), _c(1.25)], 'end': aw}, {'runner': 'run', 'callers': [_c(0.25, 'b')], 'end': aw}]},
            {'cache': 'lru1', 'plans': [{'dur': 0, 'outcome': 'ret'}, {'dur': 0.25, 'outcome': 'ret'}, {'dur': 0, 'outcome': 'ret'}],
             'threads': [{'runner': 'run', 'callers': [_c(0.0), _c(0.5)], 'end': aw}, {'runner': 'run', 'callers': [_c(0.25, 'b')], 'end': aw}]},
            # a loop stopped with the computation and a same-loop waiter pending, taken over, then run again
            {'cache': 'default', 'plans': [{'dur': 1.0, 'outcome': 'ret'}, {'dur': 0.25, 'outcome': 'ret'}],
             'threads': [{'runner': 'resume', 'pause': 1.0, 'callers': [_c(0.0), _c(U)], 'end': {'mode': 'leave', 'at': 0.25}},
                         {'runner': 'run', 'callers': [_c(0.5)], 'end': aw}]},
        ]
    return progs


def single_preemption_cases(emphasis, shard=0, nshards=1):
    """Every schedule with exactly one preemption (decision index x thread to switch to) of each canonical
    program: bounded enumeration, still generated search against the same oracle."""
    k = 0
    for p in canonical_programs(emphasis):
        d = H.run(dict(p, sched={'mode': 'none'}))['decisions']
        for dec in range(1, d + 8):
            for to in range(1, len(p['threads']) + 1):
                k += 1
                if k % nshards == shard:
                    yield dict(p, sched={'mode': 'sparse', 'pre': [[dec, to]]}, enumerated=True)
