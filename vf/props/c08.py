"""C08 - buffer debounces: one non-overlapping, non-empty call per quiet period."""
from vf.harness import buffer as H
from vf.props import buffer_common as B
from vf.runner import Result, V
from vf.sim.kernel import HarnessError
from vf.sim.world import thread_exc_violations

ID = 'C08'
LEVEL = 'exploration'
TECHNIQUE = ('property-based testing (Hypothesis) of arrival-time sequences on a tie-aware virtual-time grid; debounce invariants '
             '(no overlap, no empty call, no early call, exactly one call timeout after an isolated burst)')
RULE = ('cases: up to 10 immediately-available submissions (a quarter of the cases add plain calls from a foreign thread running its own loop) (plain calls, list/tuple/range iterables incl. empty ones) and '
        'wait(cancel=False) on the grid {0, 1/64, T/2, T-1/64, T, T+1/64, 2T, 3T}, T in {1/4, 1}, function duration 0 / T/2 / 2T, '
        'failing invocations; a sixth of the cases are a directed family: the first call fails 2-4 times in a row and a second burst arrives while the function is idle between / after the retries, off the retry grid; comparisons within 1/64 s of a tie are skipped and counted. non-trivial: a burst of >=2 arrivals with '
        'a gap in [T/2, T); distinct by case hash')
ASSUMPTIONS = ['no forced flush (wait(cancel=True)) in these programs', 'exact ties are not judged (margin 1/64 s)',
               'virtual-time loop faithful (selftest)']
CORPUS_PREEMPTIONS = {}
BUDGET = {'quick': 300, 'thorough': 8000}
ESSENTIAL = ['nontrivial', 'isolated-burst-judged']
valid = B.valid
simplify = B.simplify


def strategy(tier):
    from hypothesis import strategies as st
    kinds = ('call', 'call', 'call', 'map', 'wait')
    vt = B.with_schedule(B.program(nmax=10, kinds=kinds, immediate_only=True, forced_flush=False, fail_p=2), 1)
    # submissions also arrive from another thread (which has its own running loop): the statement is about
    # arrival times, not about who submits
    foreign = B.with_schedule(B.program(nmax=5, kinds=kinds, immediate_only=True, forced_flush=False, fail_p=1,
                                        with_foreign=1, foreign_ops=('call',), foreign_waits=True,
                                        foreign_wait_cancel=False), 2)      # wait_from_anywhere(cancel=False) is no forced flush
    # "never running twice at once, never called with an empty set" hold with forced flushes and with every kind of
    # (empty, failing, slow) producer too: for this family only those two clauses are judged
    flush = B.with_schedule(B.program(nmax=6, kinds=('call', 'map', 'map', 'amap', 'await', 'wait', 'wait'), fail_p=2), 1) \
        .map(lambda c: dict(c, flush=True))
    tied = st.builds(lambda c, tie: dict(c, tie=tie), vt, st.integers(1, 10 ** 6))     # same-instant timers in a seeded order
    return st.one_of(vt, vt, tied, foreign, flush, _after_failures())


def _after_failures():
    """A first burst whose call fails k times in a row (k = 2..4), then a burst that arrives while the function is idle
    between / after those retries, off the retry grid: it too must be delivered `timeout` after its last arrival (the
    retained arguments ride along). The random family reaches two consecutive failures followed by an isolated burst
    in well under 1% of its cases."""
    from hypothesis import strategies as st

    def build(c, k, off, gaps, j):
        T, fdur = c['T'], min(c['fdur'], c['T'] / 2)
        first = [o for o in c['prog'] if o['op'] == 'call' or (o['op'] == 'map' and o['xs'])][:1] \
            or [{'at': 0.0, 'op': 'call', 'x': 900}]
        first = [dict(first[0], at=0.0)]
        first[0].pop('iters', None)
        # the j-th failed invocation ends at j*(T+fdur); the next retry is due T later
        t = j * (T + fdur) + off * T
        late = []
        for n, g in enumerate(gaps):
            t += g * T if n else 0.0
            late.append({'at': t, 'op': 'call', 'x': 901 + n})
        return dict(c, fdur=fdur, fails=list(range(1, k + 1)), prog=first + late, retry_family=True)
    base = B.with_schedule(B.program(nmax=1, kinds=('call', 'call', 'map'), immediate_only=True, forced_flush=False, fail_p=0), 1)
    return st.builds(build, base, st.integers(2, 4), st.sampled_from([0.25, 0.5, 0.75]),
                     st.lists(st.sampled_from([0.0, 0.25, 0.5, 0.75]), min_size=1, max_size=3),
                     st.integers(1, 4))


def run_case(case):
    hist = H.run(case)
    died, harness = thread_exc_violations(hist['thread_excs'], V)
    if harness:
        raise HarnessError('thread exception in buffer harness: %r' % harness)
    viol, skipped = B.judge_debounce(case, hist)
    viol += died + B.judge_other(case, hist)
    if hist['stop'] != 'finished':
        viol += [v for v in B.judge_delivery(case, hist) if v['kind'] == 'hang']
    T = case['T']
    arr = sorted(s['t'] for s in hist['subs'])
    nt = any(T / 2 <= b - a < T for a, b in zip(arr, arr[1:]))
    cl = ['T=%s' % T]
    if nt:
        cl.append('nontrivial')
    if skipped:
        cl.append('tie-or-busy-skipped')
    judged = len(arr) > 0
    if judged:
        cl.append('isolated-burst-judged')
    if any(not c['ok'] for c in hist['calls']):
        cl.append('function-failed')
    if any(not s['values'] for s in hist['subs']):
        cl.append('empty-iterable-arrival')
    if case.get('foreign'):
        cl.append('foreign-arrivals')
    if case.get('flush'):
        cl.append('forced-flush-family')
    if case.get('retry_family') and sum(1 for c in hist['calls'] if not c['ok']) >= 2:
        cl.append('burst-after-two-failures')
    if case.get('other'):
        cl.append('second-buffer')
    return Result(viol, nt, cl, H.abbreviate(hist), {'steps': hist['steps'], 'skipped_bursts': skipped})
