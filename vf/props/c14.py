"""C14 - cache keys: same arguments share, different arguments never do.

Stateful, model-based.  A case is {'cache': kind, 'size': n, 'ops': [...]} with
  {'op': 'call', 'args': [value indices], 'kwargs': [[name, value index], ...]}   (kwargs in insertion order)
  {'op': 'evict', 'i': n}      evict the n-th entry (mod len) of the supplied mapping
  {'op': 'clear'}
The model key is (positional values in order, set of keyword pairs) under Python
equality, exactly as the statement says.  For a supplied mapping the harness-owned
mapping object *is* the ground truth of what is stored (its eviction policy is the
harness's business), so the oracle models no policy.
"""
import asyncio as aio
import itertools
from collections import OrderedDict
from collections.abc import MutableMapping

from hypothesis import strategies as st
from hypothesis.stateful import RuleBasedStateMachine, rule, initialize, precondition

from vf.runner import Result, V

ID = 'C14'
LEVEL = 'exploration'
TECHNIQUE = ('stateful model-based testing (Hypothesis RuleBasedStateMachine: call / evict / clear histories) against a '
             'key-semantics reference model, plus exhaustive enumeration of signature pairs (itertools.product) in the thorough tier')
RULE = ('histories of calls f(*args, **kwargs) with positional tuples of length 0-3 and 0-3 keyword names in every insertion '
        'order over values {0, 1, 1.0, True, "a", "b", (1,2), (1.0,2), None, frozenset({1}), -1, -2 (equal hashes)}; the wrapped function returns None / falsy values for some argument sets, evictions and clears, against '
        'the default cache, a supplied dict, an initially empty (falsy) mapping, a bounded LRU mapping and lru.LRU; '
        'non-trivial: the history contains two calls whose keys are equal but spelled differently (keyword order, 1/1.0/True) '
        'or that differ only in one keyword value or in positional-vs-keyword placement; distinct by case hash')
ASSUMPTIONS = ['arguments are hashable (unhashable arguments raise TypeError: contract of a dict-keyed cache)',
               'for a supplied mapping the mapping object itself is the ground truth of what is stored']
BUDGET = {'quick': 0, 'thorough': 0}
MACHINE_BUDGET = {'quick': 150, 'thorough': 2500}
ESSENTIAL = ['nontrivial']
ENUM_EXHAUSTIVE = {'thorough': 'all ordered pairs of call signatures with 0-2 positionals over {1, 1.0, "a"} and 0-2 keywords '
                               '{x, y} over {1, 1.0, "a"} in both insertion orders, as history [s1, s2, s1] on the default cache '
                               'and on a supplied dict'}

VALS = [0, 1, 1.0, True, 'a', 'b', (1, 2), (1.0, 2), None, frozenset({1}), -1, -2, ('x', 1), ('y', 1), ('x', 'a')]     # hash(-1) == hash(-2): unequal, same hash
NAMES = ['x', 'y', 'z']
CACHES = ['default', 'dict', 'empty-mapping', 'lru', 'lru.LRU', 'null']


class LogMapping(MutableMapping):
    """Harness-owned mapping; optionally bounded (evicts the least recently set/got entry)."""

    def __init__(self, bound=None):
        self.d = OrderedDict()
        self.bound = bound
        self.sets = []

    def __getitem__(self, k):
        v = self.d[k]
        if self.bound:
            self.d.move_to_end(k)
        return v

    def __setitem__(self, k, v):
        self.sets.append((k, v))
        self.d[k] = v
        self.d.move_to_end(k)
        if self.bound:
            while len(self.d) > self.bound:
                self.d.popitem(last=False)

    def __delitem__(self, k):
        del self.d[k]

    def __iter__(self):
        return iter(list(self.d))

    def __len__(self):
        return len(self.d)


class NullMapping(MutableMapping):
    """A store that retains nothing (evicts on insert, e.g. a zero-sized or expired cache)."""

    def __init__(self):
        self.sets = []

    def __getitem__(self, k):
        raise KeyError(k)

    def __setitem__(self, k, v):
        self.sets.append((k, v))

    def __delitem__(self, k):
        raise KeyError(k)

    def __iter__(self):
        return iter(())

    def __len__(self):
        return 0


class Interp:
    def __init__(self, cache_kind, size):
        from aiuti.asyncio import threadsafe_async_cache
        self.kind = cache_kind
        self.viol = []
        self.invocations = []          # (args, kwargs-items)
        self.results = []              # what each invocation returned
        self.present = {}              # model key -> value
        self.assoc = {}                # implementation key (as stored in the mapping) -> model key
        self.spellings = {}            # model key -> set of spellings seen
        self.loop = aio.new_event_loop()
        self.ncalls = 0
        self.nontrivial = False
        self.keys_seen = []
        self.evictions = 0
        self.store = None
        if cache_kind == 'dict':
            self.store = {}
        elif cache_kind == 'empty-mapping':
            self.store = LogMapping()
        elif cache_kind == 'lru':
            self.store = LogMapping(bound=size)
        elif cache_kind == 'null':
            self.store = NullMapping()
        elif cache_kind == 'lru.LRU':
            try:
                from lru import LRU
                self.store = LRU(size)
            except ImportError:
                self.store = LogMapping(bound=size)
                self.kind = 'lru'

        self.slow = False

        async def f(*args, **kwargs):
            self.invocations.append((args, tuple(kwargs.items())))
            if self.slow:
                await aio.sleep(0)          # (concurrent calls: give the other call a chance to arrive meanwhile)
                await aio.sleep(0)
            # a result is a value like any other: None and falsy results must be cached too
            if args and args[0] is None:
                r = None
            elif args and args[0] == 0 and args[0] is not False:
                r = 0
            elif kwargs.get('x') == 'b':
                r = ''
            else:
                r = ['computed', len(self.invocations) - 1, args, tuple(kwargs.items())]
            self.results.append(r)
            return r

        self.f = f
        if self.store is None:
            self.wrapped = threadsafe_async_cache(f)
        elif cache_kind in ('dict',):
            self.wrapped = threadsafe_async_cache(cache=self.store)(f)     # decorator-with-options form
        else:
            self.wrapped = threadsafe_async_cache(f, cache=self.store)

    def close(self):
        self.loop.close()

    def _store_keys(self):
        return list(self.store.keys())

    def _sync(self):
        """The supplied mapping is the ground truth: forget what it no longer holds."""
        if self.store is None:
            return
        held = self._store_keys()
        live = set()
        for ik in held:
            mk = self.assoc.get(_ident(ik))
            if mk is not None:
                live.add(mk)
        for mk in list(self.present):
            if mk not in live:
                del self.present[mk]

    def _call2(self, op):
        """Two calls in flight at the same time whose keyword arguments are the same pairs in opposite order."""
        args = tuple(VALS[i] for i in op['args'])
        kw_items = [(n, VALS[i]) for n, i in op['kwargs']]
        kw1, kw2 = dict(kw_items), dict(reversed(kw_items))
        mk = (args, frozenset(kw1.items()))
        self.ncalls += 2
        self.keys_seen.append((mk, (tuple(op['args']), tuple(map(tuple, op['kwargs'])), 'concurrent')))
        before_keys = None if self.store is None else [_ident(k) for k in self._store_keys()]
        n0 = len(self.invocations)
        expect_hit = mk in self.present

        async def both():
            return await aio.gather(self.wrapped(*args, **kw1), self.wrapped(*args, **kw2))
        self.slow = True
        try:
            r1, r2 = self.loop.run_until_complete(both())
        except Exception as e:  # noqa
            self.viol.append(V('raised', f'concurrent calls {args!r} {kw1!r} / {kw2!r} raised {e!r}', 'raised:' + type(e).__name__))
            return
        finally:
            self.slow = False
        ninv = len(self.invocations) - n0
        desc = f'concurrent calls f(*{args!r}, **{kw1!r}) and f(*{args!r}, **{kw2!r}) on cache={self.kind}'
        if len(kw_items) >= 2:
            self.nontrivial = True
        if ninv != (0 if expect_hit else 1):
            self.viol.append(V('concurrent-equal-calls', f'{desc}: the function was invoked {ninv}x (key '
                               f'{"stored" if expect_hit else "not stored"} before)', 'concurrent-equal-calls:invocations-%d' % min(ninv, 2)))
        elif r1 is not r2:
            self.viol.append(V('concurrent-equal-calls', f'{desc}: the two calls received different objects {r1!r} / {r2!r}',
                               'concurrent-equal-calls:different-results'))
        if ninv >= 1:
            self.present[mk] = r1
        if self.store is not None:
            for k in self._store_keys():
                if _ident(k) not in before_keys:
                    self.assoc.setdefault(_ident(k), mk)
            self._sync()

    def apply(self, op):
        if op['op'] == 'call':
            return self._call(op)
        if op['op'] == 'call2':
            if self.kind in ('default', 'dict', 'empty-mapping'):      # (stores that retain what they are given)
                return self._call2(op)
            return self._call(dict(op, op='call'))
        if self.store is None:
            return
        if op['op'] == 'clear':
            self.store.clear()
            self.evictions += 1
        elif op['op'] == 'evict':
            ks = self._store_keys()
            if ks:
                del self.store[ks[op['i'] % len(ks)]]
                self.evictions += 1
        self._sync()

    def _call(self, op):
        args = tuple(VALS[i] for i in op['args'])
        kw_items = [(n, VALS[i]) for n, i in op['kwargs']]
        kwargs = dict(kw_items)
        if op.get('mirror'):
            # the positional arguments *are* a signature written out as data: f((1,), frozenset({('x', 2)})) is a different
            # call from f(1, x=2), whatever shape the implementation gives its keys
            second = frozenset(kwargs.items()) if op['mirror'] == 'frozenset' else tuple(sorted(kwargs.items())) \
                if op['mirror'] == 'tuple' else tuple(kw_items)
            args, kw_items, kwargs = (args, second), [], {}
        mk = (args, frozenset(kwargs.items()))
        spelling = (tuple(op['args']), tuple(map(tuple, op['kwargs'])), op.get('mirror'))
        self.ncalls += 1
        # non-trivial bookkeeping
        for other_mk, other_sp in self.keys_seen:
            if other_mk == mk and other_sp != spelling:
                self.nontrivial = True
            elif other_mk != mk and _near(other_sp, spelling):
                self.nontrivial = True
        self.keys_seen.append((mk, spelling))
        before_keys = None if self.store is None else [_ident(k) for k in self._store_keys()]
        n0 = len(self.invocations)
        expect_hit = mk in self.present
        try:
            got = self.loop.run_until_complete(self.wrapped(*args, **kwargs))
        except Exception as e:  # noqa
            self.viol.append(V('raised', f'call {args!r} {kwargs!r} raised {e!r}', 'raised:' + type(e).__name__))
            return
        ninv = len(self.invocations) - n0
        desc = f'call #{self.ncalls} f(*{args!r}, **{kwargs!r}) on cache={self.kind}'
        if expect_hit:
            if ninv != 0:
                self.viol.append(V('recomputed', f'{desc}: key was stored, yet the function was invoked {ninv}x '
                                   f'(stored value {self.present[mk]!r})', 'recomputed-stored-key'))
            elif got is not self.present[mk]:
                self.viol.append(V('wrong-value', f'{desc}: returned {got!r}, stored for this key: {self.present[mk]!r}',
                                   'wrong-value-on-hit'))
        else:
            if ninv != 1:
                self.viol.append(V('not-computed', f'{desc}: key not stored (never computed or evicted) but the function was '
                                   f'invoked {ninv}x; returned {got!r}', 'miss-invocations-%d' % min(ninv, 2)))
            elif got is not self.results[-1] or self.invocations[-1] != (args, tuple(kw_items)):
                self.viol.append(V('wrong-value', f'{desc}: returned {got!r} which is not the value just computed',
                                   'wrong-value-on-miss'))
            if ninv >= 1:
                self.present[mk] = got
        if isinstance(got, list) and got and got[0] == 'computed':
            src_mk = (got[2], frozenset(got[3]))
            if src_mk != mk:
                self.viol.append(V('foreign-value', f'{desc}: received the value computed for {got[2]!r} {dict(got[3])!r}',
                                   'foreign-value'))
        if self.store is not None:
            after = self._store_keys()
            new = [k for k in after if _ident(k) not in before_keys]
            for k in new:
                self.assoc.setdefault(_ident(k), mk)
            if not expect_hit and ninv >= 1:
                if self.kind == 'null':
                    if not (self.store.sets and self.store.sets[-1][1] is got):
                        self.viol.append(V('store-not-used', f'{desc}: the computed value was not offered to the supplied mapping',
                                           'store-not-used'))
                elif not any(v is got for v in self.store.values()) and len(after) == len(before_keys):
                    self.viol.append(V('store-not-used', f'{desc}: the computed value is not in the supplied mapping afterwards '
                                       f'(mapping holds {len(after)} entries)', 'store-not-used'))
            self._sync()


def _ident(k):
    """Identity of an implementation-side key, strict about types (1 vs 1.0)."""
    return repr(k) + '|' + repr(_types(k))


def _types(k):
    if isinstance(k, (tuple, frozenset, list)):
        return sorted((repr(_types(x)) for x in k)) if isinstance(k, frozenset) else [_types(x) for x in k]
    return type(k).__name__


def _near(a, b):
    """Spellings that differ in exactly one keyword value, or in positional-vs-keyword placement."""
    if a[2] != b[2]:
        return a[:2] == b[:2]       # a signature and the same signature written out as positional data
    (pa, ka), (pb, kb) = a[:2], b[:2]
    if pa == pb and len(ka) == len(kb) and sorted(n for n, _ in ka) == sorted(n for n, _ in kb):
        da, db = dict(ka), dict(kb)
        return sum(1 for n in da if da[n] != db[n]) == 1
    vals_a = sorted(map(str, list(pa) + [v for _, v in ka]))
    vals_b = sorted(map(str, list(pb) + [v for _, v in kb]))
    return vals_a == vals_b and (len(pa) != len(pb))


def run_case(case):
    it = Interp(case['cache'], case.get('size', 2))
    try:
        for op in case['ops']:
            it.apply(op)
            if it.viol:
                break
    finally:
        it.close()
    classes = ['cache=' + it.kind]
    if it.nontrivial:
        classes.append('nontrivial')
    if it.evictions:
        classes.append('evicted')
    summary = {'calls': it.ncalls, 'invocations': len(it.invocations), 'evictions': it.evictions,
               'distinct_model_keys': len({mk for mk, _ in it.keys_seen})}
    return Result(it.viol, it.nontrivial, classes, summary)


def valid(case):
    try:
        if case['cache'] not in CACHES or not (1 <= case.get('size', 2) <= 3):
            return False
        for op in case['ops']:
            if op['op'] in ('call', 'call2'):
                if not all(0 <= i < len(VALS) for i in op['args']) or op.get('mirror') not in (None, 'frozenset', 'tuple', 'pairs'):
                    return False
                names = [n for n, _ in op['kwargs']]
                if len(set(names)) != len(names) or not all(n in NAMES and 0 <= i < len(VALS) for n, i in op['kwargs']):
                    return False
            elif op['op'] == 'evict':
                if op['i'] < 0:
                    return False
            elif op['op'] != 'clear':
                return False
        return True
    except (KeyError, TypeError, ValueError):
        return False


_kw = st.lists(st.sampled_from(NAMES), unique=True, max_size=3).flatmap(
    lambda ns: st.tuples(*[st.tuples(st.just(n), st.integers(0, len(VALS) - 1)) for n in ns]).map(
        lambda t: [list(x) for x in t]))
_args = st.lists(st.integers(0, len(VALS) - 1), max_size=3)


def machines(tier):
    def factory(col):
        class KeyMachine(RuleBasedStateMachine):
            def __init__(self):
                super().__init__()
                self.case = None
                self.it = None
                self.sigs = []

            @initialize(kind=st.sampled_from(CACHES), size=st.integers(1, 3))
            def setup(self, kind, size):
                self.case = {'cache': kind, 'size': size, 'ops': []}
                self.it = Interp(kind, size)

            def _do(self, op):
                self.case['ops'].append(op)
                if not self.it.viol:
                    self.it.apply(op)

            @rule(args=_args, kwargs=_kw)
            def call(self, args, kwargs):
                self.sigs.append((args, kwargs))
                self._do({'op': 'call', 'args': args, 'kwargs': kwargs})

            @rule(args=_args, kwargs=_kw)
            def call_concurrently(self, args, kwargs):
                self.sigs.append((args, kwargs))
                self._do({'op': 'call2', 'args': args, 'kwargs': kwargs})

            @precondition(lambda self: self.sigs)
            @rule(data=st.data())
            def call_respelled(self, data):
                """Re-issue an earlier signature with a different but equal spelling, or a near miss."""
                args, kwargs = data.draw(st.sampled_from(self.sigs))
                how = data.draw(st.sampled_from(['permute-kwargs', 'equal-value', 'change-one-kw', 'move-to-kw', 'kw-as-pair', 'same',
                                                 'mirror']))
                if how == 'mirror':
                    self._do({'op': 'call', 'args': list(args), 'kwargs': [list(x) for x in kwargs],
                              'mirror': data.draw(st.sampled_from(['frozenset', 'frozenset', 'tuple', 'pairs']))})
                    return
                args, kwargs = list(args), [list(x) for x in kwargs]
                if how == 'permute-kwargs' and len(kwargs) > 1:
                    kwargs = data.draw(st.permutations(kwargs))
                elif how == 'equal-value':
                    eq = {1: [2, 3], 2: [1, 3], 3: [1, 2], 6: [7], 7: [6]}
                    slots = [('a', i) for i, v in enumerate(args) if v in eq] + [('k', i) for i, (n, v) in enumerate(kwargs) if v in eq]
                    if slots:
                        w, i = data.draw(st.sampled_from(slots))
                        if w == 'a':
                            args[i] = data.draw(st.sampled_from(eq[args[i]]))
                        else:
                            kwargs[i][1] = data.draw(st.sampled_from(eq[kwargs[i][1]]))
                elif how == 'change-one-kw' and kwargs:
                    i = data.draw(st.integers(0, len(kwargs) - 1))
                    kwargs[i][1] = (kwargs[i][1] + data.draw(st.integers(1, len(VALS) - 1))) % len(VALS)
                elif how == 'kw-as-pair' and kwargs:
                    # f(x=1) vs f(('x', 1)): a keyword pair passed as a positional (name, value) tuple is another key
                    pairs = {(VALS[12][0], 1): 12, (VALS[13][0], 1): 13, ('x', 4): 14}
                    for i, (n_, v_) in enumerate(kwargs):
                        if (n_, v_) in pairs:
                            args.append(pairs[(n_, v_)])
                            del kwargs[i]
                            break
                elif how == 'move-to-kw' and args:
                    free = [n for n in NAMES if n not in [k for k, _ in kwargs]]
                    if free:
                        kwargs.append([free[0], args.pop()])
                self._do({'op': 'call', 'args': args, 'kwargs': kwargs})

            @precondition(lambda self: self.it is not None and self.it.store is not None)
            @rule(i=st.integers(0, 5))
            def evict(self, i):
                self._do({'op': 'evict', 'i': i})

            @precondition(lambda self: self.it is not None and self.it.store is not None)
            @rule()
            def clear(self):
                self._do({'op': 'clear'})

            def teardown(self):
                if self.it is None:
                    return
                it = self.it
                it.close()
                classes = ['cache=' + it.kind] + (['nontrivial'] if it.nontrivial else []) + (['evicted'] if it.evictions else [])
                col.add(self.case, Result(it.viol, it.nontrivial, classes,
                                          {'calls': it.ncalls, 'invocations': len(it.invocations),
                                           'evictions': it.evictions}))
        return KeyMachine
    return [('keys', factory, 30)]


def enumerate_cases(tier):
    if tier != 'thorough':
        return
    pv = [1, 2, 4]          # indices of 1, 1.0, 'a'
    pos = [list(p) for n in range(3) for p in itertools.product(pv, repeat=n)]
    pos += [[12], [14], [1, 12], [12, 13]]      # positional (name, value) tuples mirroring keyword pairs
    kws = [[]]
    for n in ('x', 'y'):
        kws += [[[n, v]] for v in pv]
    for a, b in itertools.product(pv, repeat=2):
        kws += [[['x', a], ['y', b]], [['y', b], ['x', a]]]
    sigs = [(p, k) for p in pos for k in kws]
    for cache in ('default', 'dict'):
        for (p1, k1) in sigs:
            for m in ('frozenset', 'tuple', 'pairs'):
                a, b = {'op': 'call', 'args': p1, 'kwargs': k1}, {'op': 'call', 'args': p1, 'kwargs': k1, 'mirror': m}
                yield {'cache': cache, 'size': 2, 'ops': [a, b, a]}
                yield {'cache': cache, 'size': 2, 'ops': [b, a, b]}
        for (p1, k1), (p2, k2) in itertools.product(sigs, repeat=2):
            yield {'cache': cache, 'size': 2,
                   'ops': [{'op': 'call', 'args': p1, 'kwargs': k1}, {'op': 'call', 'args': p2, 'kwargs': k2},
                           {'op': 'call', 'args': p1, 'kwargs': k1}]}
