"""C12 - FileLock obeys the Lock/RLock contract and leaves no residue on failure.

Three generators feed the same interpreter + contract model (vf/harness/flseq.py):
 (a) Hypothesis RuleBasedStateMachine: op histories up to 30 steps, preconditions read the contract model;
 (b) bounded-exhaustive breadth-first enumeration over contract states (every op from every state
     reachable within the depth bound, shortest prefix replayed on the real code);
 (c) fault enumeration: for every (state, op) of a shallower BFS, OSError injected at every single index
     and every pair of indices of the os.open / flock / unlock / os.close calls the op makes.
"""
import copy
import itertools

from hypothesis import strategies as st
from hypothesis.stateful import RuleBasedStateMachine, rule, initialize, precondition

from vf.harness import flseq as H
from vf.runner import Result, V

ID = 'C12'
LEVEL = 'exploration'
TECHNIQUE = ('stateful model-based testing (Hypothesis RuleBasedStateMachine) against an executable Lock/RLock contract model, '
             'bounded-exhaustive breadth-first enumeration of op sequences over contract states, and enumeration of single/double '
             'OSError injections into open/flock/unlock/close; fd ledger cross-checked with /proc/self/fd, virtual-time bounds')
RULE = ('histories over 2 FileLock objects (each reentrant or not) x 2 thread identities on one path: acquire (blocking / '
        'non-blocking / timeout 0, 0.1, -1 / blocking=False with timeout), with-enter, acquire_ctx-enter, release, release(force); '
        'after every op: return value, is_locked, in-process lock owner/depth, descriptor ledger vs /proc/self/fd, elapsed virtual '
        'time against the contract; at the end everything is released and both threads must be able to acquire both objects. '
        'non-trivial: the history reaches depth >=2, or uses both objects or both threads, or contains a failed acquire or an '
        'injected fault; distinct by case hash')
ASSUMPTIONS = ['release is called by the acquiring thread (releasing another thread\'s lock is outside the contract)',
               'operations that the contract says block forever are not issued',
               'blocking=False together with timeout>=0 is treated as a timed acquire (the documented normalisation)',
               'after a failing unlock/close the statement is silent: only descriptor and is_locked consistency are checked',
               'Linux flock semantics; in-process lock shims carry the thread identity (sequential execution)']
BUDGET = {'quick': 0, 'thorough': 0}
MACHINE_BUDGET = {'quick': 150, 'thorough': 2500}
ESSENTIAL = ['nontrivial', 'failed-acquire', 'fault-injected', 'depth>=2']
ENUM_EXHAUSTIVE = {'quick': 'breadth-first over contract states: every op of the 56-op alphabet from every state reachable within 3 ops, '
                            '8 configurations (reentrant x2, default timeout); single+double fault injection from states within 2 ops',
                   'thorough': 'breadth-first over contract states: every op from every state reachable within 6 ops (sequences up to '
                               'length 7), 8 configurations; single+double fault injection from states within 3 ops'}

ACQ_VARIANTS = [(True, None), (False, None), (True, 0.1), (True, 0), (True, -1), (False, 0.1),
                (False, -1), (False, -1.0)]        # non-blocking with the "no timeout" value spelled out


def alphabet():
    ops = []
    for o in 'AB':
        for t in ('T1', 'T2'):
            for b, to in ACQ_VARIANTS:
                ops.append({'op': 'acquire', 'o': o, 't': t, 'blocking': b, 'timeout': to})
            ops.append({'op': 'with_enter', 'o': o, 't': t})
            for b, to in [(True, None), (False, None), (True, 0.1)]:
                ops.append({'op': 'ctx_enter', 'o': o, 't': t, 'blocking': b, 'timeout': to})
            ops.append({'op': 'release', 'o': o, 't': t, 'force': False})
            ops.append({'op': 'release', 'o': o, 't': t, 'force': True})
            ops.append({'op': 'with_exit', 'o': o, 't': t, 'exc': False})
            ops.append({'op': 'ctx_exit', 'o': o, 't': t, 'exc': True})
    return ops


def model_step(m, op):
    """Apply op to the contract model; returns False if the op must not be issued."""
    n, t = op['o'], op['t']
    if op['op'] in ('release', 'with_exit', 'ctx_exit'):
        o = m.o[n]
        if o['held'] and o['owner'] != t:
            return False
        if op['op'] == 'ctx_exit':
            # only meaningful with an open acquire_ctx of (object, thread); tracked on the model object
            if not m.ctx_open.get((n, t)):
                return False
            m.ctx_open[(n, t)] -= 1
        m.release(n, t, op.get('force', False))
        return True
    b, to = (True, None) if op['op'] == 'with_enter' else (op.get('blocking', True), op.get('timeout'))
    snap = m.snapshot()
    r, _ = m.acquire(n, t, b, to)
    if r == 'hang':
        m.restore(snap)
        return False
    if op['op'] == 'ctx_enter' and r is True:
        m.ctx_open[(n, t)] = m.ctx_open.get((n, t), 0) + 1
    return True


def configs():
    for ra, rb, dt in itertools.product((False, True), (False, True), (-1, 0.1)):
        yield {'reentrant': {'A': ra, 'B': rb}, 'default_timeout': dt}


def bfs(cfg, depth):
    """Yield (prefix, op) for every op applicable in every contract state reachable within `depth` ops."""
    ops = alphabet()
    m0 = H.Model(cfg['reentrant'], cfg['default_timeout'])
    seen = {repr(m0.snapshot())}
    frontier = [([], m0.snapshot())]
    m = H.Model(cfg['reentrant'], cfg['default_timeout'])
    for d in range(depth + 1):
        nxt = []
        for prefix, snap in frontier:
            for op in ops:
                m.restore(snap)
                if not model_step(m, op):
                    continue
                yield prefix, op
                key = repr(m.snapshot())
                if key not in seen and d < depth:
                    seen.add(key)
                    nxt.append((prefix + [op], m.snapshot()))
        frontier = nxt


def enumerate_cases(tier, shard=0, nshards=1):
    depth, fdepth = (6, 3) if tier == 'thorough' else (3, 2)
    k = 0
    for cfg in configs():
        for prefix, op in bfs(cfg, depth):
            k += 1
            if k % nshards == shard:
                yield dict(cfg, ops=prefix + [op], inject=[], gen='bfs')
    # the same histories in a process whose descriptor 0 is free (the lock file is opened as descriptor 0)
    for cfg in configs():
        for prefix, op in bfs(cfg, min(depth, 3)):
            k += 1
            if k % nshards == shard:
                yield dict(cfg, ops=prefix + [op], inject=[], gen='bfs-fd0', fd0_free=True)
    # fault enumeration
    for cfg in configs():
        for prefix, op in bfs(cfg, fdepth):
            k += 1
            if k % nshards != shard:
                continue
            base = dict(cfg, ops=prefix + [op], inject=[])
            clean = H.run(dict(cfg, ops=prefix, inject=[]))
            c0 = clean['stats'].get('os_calls_in_ops', 0)
            c1 = H.run(base)['stats'].get('os_calls_in_ops', 0)
            for i in range(c0, c1):
                yield dict(base, inject=[i], gen='fault1')
                for j in range(i + 1, min(c1 + 2, i + 8)):
                    yield dict(base, inject=[i, j], gen='fault2')


def valid(case):
    try:
        if set(case['reentrant']) != {'A', 'B'} or case['default_timeout'] not in (-1, 0.1):
            return False
        for op in case['ops']:
            if op['o'] not in 'AB' or op['t'] not in ('T1', 'T2'):
                return False
            if op['op'] == 'acquire' or op['op'] == 'ctx_enter':
                if (op.get('blocking', True), op.get('timeout')) not in ACQ_VARIANTS:
                    return False
            elif op['op'] not in ('with_enter', 'release', 'with_exit', 'ctx_exit'):
                return False
        return all(isinstance(i, int) and i >= 0 for i in case.get('inject') or ())
    except (KeyError, TypeError):
        return False


def run_case(case):
    r = H.run(case)
    viol = [V(k, msg, sig) for k, sig, msg in r['violations']]
    st_ = r['stats']
    objs = {op['o'] for op in case['ops']}
    thr = {op['t'] for op in case['ops']}
    nt = st_['max_depth'] >= 2 or len(objs) == 2 or len(thr) == 2 or st_['failed_acquires'] > 0 or st_['faults'] > 0
    cl = ['gen=' + case.get('gen', 'machine')]
    if nt:
        cl.append('nontrivial')
    if st_['max_depth'] >= 2:
        cl.append('depth>=2')
    if st_['failed_acquires']:
        cl.append('failed-acquire')
    if st_['faults']:
        cl.append('fault-injected')
    if any(op['op'] == 'release' and op.get('force') for op in case['ops']):
        cl.append('forced-release')
    summary = {'config': {'reentrant': case['reentrant'], 'default_timeout': case['default_timeout']},
               'trace': r['trace'][-12:], 'os_calls': r['os_calls'][-12:]}
    return Result(viol, nt, cl, summary, {'ops': st_['ops']})


_obj = st.sampled_from('AB')
_thr = st.sampled_from(['T1', 'T2'])


def machines(tier):
    def factory(col):
        class LockMachine(RuleBasedStateMachine):
            def __init__(self):
                super().__init__()
                self.case = None
                self.m = None

            @initialize(ra=st.booleans(), rb=st.booleans(), dt=st.sampled_from([-1, -1, 0.1]),
                        inject=st.lists(st.integers(0, 40), max_size=2), fd0=st.sampled_from([False, False, False, True]))
            def setup(self, ra, rb, dt, inject, fd0):
                self.case = {'reentrant': {'A': ra, 'B': rb}, 'default_timeout': dt, 'ops': [], 'fd0_free': fd0,
                             'inject': inject if inject and inject[0] % 3 == 0 else [], 'gen': 'machine'}
                self.m = H.Model(self.case['reentrant'], dt)

            def _try(self, op):
                if model_step(self.m, op):
                    self.case['ops'].append(op)

            @rule(o=_obj, t=_thr, v=st.sampled_from(ACQ_VARIANTS))
            def acquire(self, o, t, v):
                self._try({'op': 'acquire', 'o': o, 't': t, 'blocking': v[0], 'timeout': v[1]})

            @rule(o=_obj, t=_thr)
            def with_enter(self, o, t):
                self._try({'op': 'with_enter', 'o': o, 't': t})

            @rule(o=_obj, t=_thr, v=st.sampled_from([(True, None), (False, None), (True, 0.1)]))
            def ctx_enter(self, o, t, v):
                self._try({'op': 'ctx_enter', 'o': o, 't': t, 'blocking': v[0], 'timeout': v[1]})

            @precondition(lambda self: self.m is not None and any(v['held'] for v in self.m.o.values()))
            @rule(data=st.data(), force=st.sampled_from([False, False, True]))
            def release_held(self, data, force):
                held = [(n, v['owner']) for n, v in self.m.o.items() if v['held']]
                n, t = data.draw(st.sampled_from(held))
                self._try({'op': 'release', 'o': n, 't': t, 'force': force})

            @rule(o=_obj, t=_thr, kind=st.sampled_from(['with_exit', 'ctx_exit']), exc=st.booleans())
            def exit_ctx(self, o, t, kind, exc):
                self._try({'op': kind, 'o': o, 't': t, 'exc': exc})

            @rule(o=_obj, t=_thr, force=st.booleans())
            def release_any(self, o, t, force):
                self._try({'op': 'release', 'o': o, 't': t, 'force': force})

            @precondition(lambda self: self.m is not None and any(v['held'] and v['re'] for v in self.m.o.values()))
            @rule(data=st.data())
            def nest(self, data):
                held = [(n, v['owner']) for n, v in self.m.o.items() if v['held'] and v['re']]
                n, t = data.draw(st.sampled_from(held))
                self._try({'op': 'acquire', 'o': n, 't': t, 'blocking': True, 'timeout': None})

            def teardown(self):
                if self.case is None or not self.case['ops']:
                    return
                col.add(self.case, run_case(copy.deepcopy(self.case)))
        return LockMachine
    return [('locks', factory, 30)]
