"""C07 - buffer wait() is a true barrier and always returns; shutdown terminates."""
from hypothesis import strategies as st

from vf.harness import buffer as H
from vf.props import buffer_common as B
from vf.runner import Result, V
from vf.sim.kernel import HarnessError
from vf.sim.world import thread_exc_violations

ID = 'C07'
LEVEL = 'exploration'
TECHNIQUE = ('property-based testing (Hypothesis) of submission programs interleaved with wait(cancel=True/False) at grid instants, '
             'loop shutdown at generated instants, foreign submit-then-wait_from_anywhere threads under generated schedules; '
             'barrier snapshot oracle at each wait() return, deadlock detector and virtual-time horizon watchdog for termination')
RULE = ('cases: C03 programs with several wait() calls at any grid instant (idle / collecting / timer armed / function running / '
        'another wait pending); half shut the loop down (main returns, asyncio.run cancels the background task) at an instant '
        'relative to the program landmarks; one quarter add a foreign thread doing submit-then-wait_from_anywhere. '
        'non-trivial: a wait() issued while the function is running or the timer is armed, or >=2 overlapping waits, or shutdown in a '
        'non-idle state; distinct by case hash')
ASSUMPTIONS = ['whether the function is flushed once more at shutdown is not judged (statement only demands termination)',
               'cooperative shims faithful (selftest)', 'no foreign thread in shutdown cases']
CORPUS_PREEMPTIONS = {}
BUDGET = {'quick': 250, 'thorough': 6000}
ESSENTIAL = ['nontrivial', 'shutdown-non-idle', 'overlapping-waits']
valid = B.valid
simplify = B.simplify


def strategy(tier):
    kinds = ('call', 'call', 'await', 'map', 'amap', 'wait', 'wait')
    # half of the single-loop programs break ties between timers that fall on one virtual instant by a generated seed
    vt = st.builds(lambda c, tie: dict(c, tie=tie) if tie else c, B.with_schedule(B.program(kinds=kinds), 1),
                   st.one_of(st.just(0), st.integers(1, 10 ** 6)))
    sd = B.with_schedule(B.program(kinds=kinds, nmax=5, shutdown=True), 1)
    f1 = B.with_schedule(B.program(kinds=kinds, nmax=4, with_foreign=1), 2)
    return st.one_of(vt, sd, sd, f1, B.pileup())


def run_case(case):
    hist = H.run(case)
    sd = case.get('shutdown')
    died, harness = thread_exc_violations(hist['thread_excs'], V)
    if harness and sd is None:
        raise HarnessError('thread exception in buffer harness: %r' % harness)
    viol = B.judge_barrier(case, hist) + (died if sd is None else []) + B.judge_other(case, hist)
    cl = ['sched=' + case['sched']['mode']]
    busy_wait = False
    for w in hist['waits']:
        st_ = B.state_at(hist, w['t_call'])
        if st_ != 'idle':
            busy_wait = True
    ws = hist['waits']
    overlap = any(a is not b and a['t_call'] <= b['t_call'] and (a['t_ret'] is None or a['t_ret'] > b['t_call'])
                  for a in ws for b in ws)
    sd_state = B.state_at(hist, sd) if sd is not None else None
    nt = busy_wait or overlap or (sd_state not in (None, 'idle'))
    if nt:
        cl.append('nontrivial')
    if busy_wait:
        cl.append('wait-while-busy')
    if overlap:
        cl.append('overlapping-waits')
    if sd is not None:
        cl.append('shutdown')
        cl.append('shutdown-state=' + sd_state)
        if sd_state != 'idle':
            cl.append('shutdown-non-idle')
    if case.get('foreign'):
        cl.append('foreign-thread')
    return Result(viol, nt, cl, H.abbreviate(hist), {'steps': hist['steps'], 'decisions': hist['decisions']})
