"""C04 - batcher returns to each caller exactly its own outcome, and always answers."""
from hypothesis import strategies as st

from vf.harness import batcher as H
from vf.props import batch_common as B
from vf.runner import Result

ID = 'C04'
LEVEL = 'exploration'
TECHNIQUE = ('property-based testing (Hypothesis) of timed call programs x batch-function behaviours on a virtual-time loop; '
             'per-caller expected outcome derived from the batch function\'s own yield log (identity-tagged values/exceptions)')
RULE = ('cases: up to 10 timed calls with names from a 4-value domain (default keys repeat) and explicit keys, gaps around '
        'batch_timeout, max_batch_size 1-5, max_concurrent_batches 1-3, retention 0/>0, class and decorator forms; per-key behaviour '
        'of the harness batch function from {value, Exception instance, Exception class as value, omitted, raise before/after, '
        'yielded twice, unknown key}, result order forward/reverse/rotated, per-batch and per-item durations. '
        'non-trivial: some batch carries >=2 distinct keys and either the order is not forward or a key misbehaves/fails; '
        'distinct by case hash')
ASSUMPTIONS = ['batch function raises Exception subclasses only; yielded exceptions are not StopIteration',
               'after a misbehaving yield (duplicate/unknown key) unanswered callers may get any exception or their own key\'s value',
               'virtual-time loop is faithful (selftest)']
BUDGET = {'quick': 300, 'thorough': 8000}
ESSENTIAL = ['nontrivial', 'has-failure-kind']
valid = B.valid_case


@st.composite
def _case(draw):
    family = draw(st.sampled_from(['mixed', 'mixed', 'mixed', 'same-key']))
    cfg = draw(B.cfg_strategy(rets=(0.25, 0.25, 4.0)) if family == 'same-key' else B.cfg_strategy())
    bdur = draw(st.sampled_from([0, 0, 3 * H.U, 0.25]))
    # 'same-key': one or two keys asked for again and again around the retention window (hits, expiry, re-requests
    # landing in one batching window) - every caller must still be answered with its own key's outcome
    calls = draw(B.timed_calls(10, cfg, bdur, B.NAMES[:draw(st.integers(1, 2))] if family == 'same-key' else B.NAMES,
                               explicit_keys=family != 'same-key'))
    for c in calls:
        if draw(st.integers(0, 5)) == 0:
            c['chain'] = draw(st.integers(1, 2))      # the caller asks again for its key the moment it has been answered
    two = draw(st.integers(0, 3)) == 0
    if two:
        for c in calls:
            c['b'] = draw(st.integers(0, 1))
    keys = sorted({c['key'] if c['key'] is not None else c['name'] for c in calls})
    behave = {}
    for k in keys:
        kind = draw(st.sampled_from(['value'] * 5 + B.BEHAVIOURS[1:] + ['excstop']))
        if kind != 'value':
            behave[k] = kind
    mutate = None
    if draw(st.integers(0, 5)) == 0:
        # max_batch_size "can be safely mutated after initialization": every call must still be answered
        cfg = dict(cfg, form='class')          # (only the class exposes the attribute)
        mutate = {'at': draw(st.sampled_from([c['at'] for c in calls])) + draw(st.sampled_from([0, H.U, H.U, 2 * H.U, cfg['bt']])),
                  'mbs': draw(st.integers(1, 5))}
    return {'cfg': cfg, 'calls': calls, 'behave': behave, 'order': draw(st.sampled_from(['fwd', 'rev', 'rot'])),
            'bdur': bdur, 'idur': draw(st.sampled_from([0, 0, H.U, 4 * H.U])), 'mutate': mutate, 'fresh': 1,
            'raise_type': draw(st.sampled_from(sorted(H.RAISE_TYPES))), 'two_batchers': two,
            'twice_gap': draw(st.sampled_from([0, 0, 4 * H.U, 0.25]))}


def strategy(tier):
    # half of the programs serve timers that fall on one virtual instant in an order decided by a generated seed
    return st.builds(lambda c, tie: dict(c, tie=tie) if tie else c, _case(), st.one_of(st.just(0), st.integers(1, 10 ** 6)))


def run_case(case):
    hist = H.run(case)
    viol = B.judge_outcomes(hist)
    multi = any(len({k for k, _ in b['items']}) >= 2 for b in hist['batches'])
    failing = bool(case['behave'])
    nt = multi and (case['order'] != 'fwd' or failing)
    cl = ['form=' + case['cfg']['form'], 'order=' + case['order']]
    if nt:
        cl.append('nontrivial')
    if failing:
        cl.append('has-failure-kind')
    for k in set(case['behave'].values()):
        cl.append('behave=' + k)
    if any(B.own_batch(hist, c) is None and c['outcome'] is not None for c in hist['callers']):
        cl.append('has-sharer')
    if case.get('two_batchers'):
        cl.append('two-batchers')
    return Result(viol, nt, cl, H.abbreviate(hist), {'steps': hist['steps']})
