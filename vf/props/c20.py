"""C20 - gather_excs reports exactly the failures, in input order, after all finish.

Statement clauses -> oracle clauses:
  "runs every given awaitable to completion"        -> completion log == all indices
  "yields exactly the exceptions ... instances of only, in the order of the
   awaitables given"                                 -> identity-compared ordered list
  "raise_first_exc raises the first ... returns None" -> same list, first element
"""
import asyncio as aio

from hypothesis import strategies as st

from vf.runner import Result, V
from vf.sim.world import World, classify_stop

ID = 'C20'
LEVEL = 'exploration'
TECHNIQUE = 'property-based testing (Hypothesis), virtual-time event loop, reference list oracle by identity'
RULE = ('cases: 0-5 awaitables (coroutine/task/future) each returning or raising one of '
        '{Base, Sub(Base), Other, OnlyBase(BaseException), CancelledError} after a delay k/64 s, '
        '`only` from the hierarchy or default, run through gather_excs and raise_first_exc; '
        'non-trivial: >=2 failing awaitables whose finishing order differs from input order; '
        'distinct by hash of the case')
ASSUMPTIONS = ['virtual-time SelectorEventLoop behaves like the real one (selftest)',
               'awaitables are distinct objects (asyncio.gather de-duplicates identical ones)']
BUDGET = {'quick': 400, 'thorough': 12000}
ESSENTIAL = ['nontrivial']


class Base(Exception):
    pass


class Sub(Base):
    pass


class Other(Exception):
    pass


class OnlyBase(BaseException):
    pass


class Falsy(Sub):
    """An exception whose instances are falsy (a container of detail records that has none)."""

    def __len__(self):
        return 0


class FalsyBool(Other):
    def __bool__(self):
        return False


KINDS = {'ret': None, 'Base': Base, 'Sub': Sub, 'Other': Other, 'OnlyBase': OnlyBase, 'Falsy': Falsy, 'FalsyBool': FalsyBool,
         'Cancelled': aio.CancelledError}
ONLY = {'default': None, 'Base': Base, 'Sub': Sub, 'Other': Other, 'Exception': Exception,
        'BaseException': BaseException, 'OnlyBase': OnlyBase, 'Cancelled': aio.CancelledError}


def strategy(tier):
    aw = st.fixed_dictionaries({
        'outcome': st.sampled_from(['ret', 'Base', 'Base', 'Sub', 'Sub', 'Other', 'OnlyBase', 'Cancelled', 'Falsy', 'FalsyBool']),
        'delay': st.integers(0, 5),
        'how': st.sampled_from(['coro', 'task', 'fut']),
    })
    return st.fixed_dictionaries({
        'aws': st.lists(aw, max_size=5),
        'only': st.sampled_from(list(ONLY)),
    })


def _same(a, b):
    # gather manufactures a fresh CancelledError for a cancelled child: compare by type
    return a is b or (isinstance(a, aio.CancelledError) and isinstance(b, aio.CancelledError))


def run_case(case):
    from aiuti import asyncio as A
    specs = case['aws']
    out = {}

    def build(done, excs):
        loop = aio.get_running_loop()
        aws = []

        async def w(i, kind, d):
            await aio.sleep(d / 64)
            done.append(i)
            if KINDS[kind] is not None:
                e = KINDS[kind](i)
                excs[i] = e
                raise e
            return i

        def fut(i, kind, d):
            f = loop.create_future()

            def fire():
                done.append(i)
                if kind == 'Cancelled':
                    excs[i] = aio.CancelledError(i)
                    f.cancel()
                elif KINDS[kind] is not None:
                    e = KINDS[kind](i)
                    excs[i] = e
                    f.set_exception(e)
                else:
                    f.set_result(i)
            loop.call_later(d / 64, fire)
            return f

        for i, s in enumerate(specs):
            excs.append(None)
            if s['how'] == 'fut':
                aws.append(fut(i, s['outcome'], s['delay']))
            else:
                c = w(i, s['outcome'], s['delay'])
                aws.append(c if s['how'] == 'coro' else aio.ensure_future(c))
        return aws

    async def main():
        kw = {} if ONLY[case['only']] is None else {'only': ONLY[case['only']]}
        done1, excs1 = [], []
        got = [e async for e in A.gather_excs(build(done1, excs1), **kw)]
        out['list'] = (got, excs1, list(done1))
        done2, excs2 = [], []
        try:
            r = ('ret', await A.raise_first_exc(build(done2, excs2), **kw))
        except BaseException as e:  # noqa
            r = ('exc', e)
        out['first'] = (r, excs2, list(done2))

    with World() as w:
        sim = w.run([lambda: aio.run(main())])
        stop = classify_stop(sim)
        texc = sim.threads[0].exc
    viol = []
    flt = ONLY[case['only']] or BaseException
    n = len(specs)
    if stop != 'finished' or texc is not None or 'first' not in out:
        viol.append(V('no-completion', f'stop={stop} exc={texc!r}', 'no-completion'))
        return Result(viol, False, [], {'stop': stop})
    got, excs1, done1 = out['list']
    exp = [e for e in excs1 if e is not None and isinstance(e, flt)]
    if sorted(done1) != list(range(n)):
        viol.append(V('not-all-finished', f'gather_excs finished {sorted(done1)} of {n}'))
    if len(got) != len(exp) or not all(_same(a, b) for a, b in zip(got, exp)):
        viol.append(V('wrong-exceptions', f'gather_excs yielded {got!r}, expected {exp!r}'))
    (r, excs2, done2) = out['first']
    exp2 = [e for e in excs2 if e is not None and isinstance(e, flt)]
    if sorted(done2) != list(range(n)):
        viol.append(V('not-all-finished', f'raise_first_exc finished {sorted(done2)} of {n}',
                      'not-all-finished-first'))
    if exp2:
        if r[0] != 'exc' or not _same(r[1], exp2[0]):
            viol.append(V('wrong-first', f'raise_first_exc gave {r!r}, expected raise {exp2[0]!r}'))
    elif r != ('ret', None):
        viol.append(V('wrong-first', f'raise_first_exc gave {r!r}, expected return None', 'wrong-first-none'))
    failing = [(s['delay'], i) for i, s in enumerate(specs) if s['outcome'] != 'ret']
    nontrivial = len(failing) >= 2 and [i for _, i in sorted(failing)] != [i for _, i in failing]
    classes = ['only=' + case['only'], 'n=%d' % n]
    if nontrivial:
        classes.append('nontrivial')
    if any(s['outcome'] == 'Sub' for s in specs) and case['only'] == 'Base':
        classes.append('subclass-match')
    summary = {'yielded': [repr(e) for e in got], 'finish_order': done1, 'first': repr(r)}
    return Result(viol, nontrivial, classes, summary, {'steps': sim.steps})
