"""Runner: sharding, seeds, collect-then-shrink, replay files, evidence, known
findings, exit codes (DESIGN §2.7–2.9).

Property module protocol (vf/props/cXX.py):
  ID, LEVEL, RULE, ASSUMPTIONS, TECHNIQUE
  BUDGET = {'quick': examples per shard, 'thorough': ...}
  strategy(tier)            -> Hypothesis strategy of JSON-serialisable cases
  run_case(case)            -> Result
optional:
  SHARDS = {'quick': n, 'thorough': n}
  enumerate_cases(tier)     -> iterator of cases (finite part, sharded round-robin);
                               module attribute ENUM_EXHAUSTIVE says whether complete
  machines(tier)            -> list of (name, RuleBasedStateMachine factory(collector))
  extra(tier, seed, col)    -> property-specific additional phase run in shard 0
  ESSENTIAL = [class names] -> classes that must each be >= 2 % of cases
"""
import hashlib
import importlib
import json
import multiprocessing as mp
import os
import sys
import time
import traceback

ROOT = os.path.dirname(os.path.dirname(os.path.abspath(__file__)))
REPO = os.environ.get('VERIF_REPO', '/repo')


class Result:
    __slots__ = ('violations', 'nontrivial', 'classes', 'summary', 'stats')

    def __init__(self, violations=(), nontrivial=False, classes=(), summary=None, stats=None):
        self.violations = list(violations)   # dicts: kind, sig, msg
        self.nontrivial = nontrivial
        self.classes = list(classes)
        self.summary = summary
        self.stats = stats or {}


def V(kind, msg, sig=None):
    return {'kind': kind, 'sig': sig or kind, 'msg': msg}


def case_hash(case):
    return hashlib.sha1(json.dumps(case, sort_keys=True, default=repr).encode()).hexdigest()[:16]


def jsonable(x):
    return json.loads(json.dumps(x, default=repr))


class Collector:
    def __init__(self):
        self.evaluations = 0
        self.nontrivial = set()
        self.classes = {}
        self.samples = []
        self.buckets = {}      # sig -> {kind, msg, case, size, count}
        self.stats = {}
        self.errors = []
        self.notes = {}

    def add(self, case, res):
        self.evaluations += 1
        h = None
        if res.nontrivial:
            h = case_hash(case)
            if h not in self.nontrivial:
                self.nontrivial.add(h)
                if len(self.samples) < 4:
                    self.samples.append({'case': jsonable(case), 'observed': jsonable(res.summary)})
        for c in res.classes:
            self.classes[c] = self.classes.get(c, 0) + 1
        for k, v in res.stats.items():
            if isinstance(v, (int, float)):
                self.stats[k] = self.stats.get(k, 0) + v
        for v in res.violations:
            b = self.buckets.get(v['sig'])
            size = len(json.dumps(case, default=repr))
            if b is None:
                self.buckets[v['sig']] = {'kind': v['kind'], 'sig': v['sig'], 'msg': v['msg'],
                                          'case': jsonable(case), 'size': size, 'count': 1,
                                          'observed': jsonable(res.summary)}
            else:
                b['count'] += 1
                if size < b['size']:
                    b.update(case=jsonable(case), size=size, msg=v['msg'],
                             observed=jsonable(res.summary))

    def dump(self):
        return {'evaluations': self.evaluations, 'nontrivial': sorted(self.nontrivial),
                'classes': self.classes, 'samples': self.samples, 'buckets': self.buckets,
                'stats': self.stats, 'errors': self.errors, 'notes': self.notes}


def load_prop(pid):
    return importlib.import_module('vf.props.' + pid.lower())


# --------------------------------------------------------------------------
def _hyp_settings(n, shrink):
    from hypothesis import settings, HealthCheck, Phase
    return settings(max_examples=n, deadline=None, database=None, derandomize=False,
                    report_multiple_bugs=False, print_blob=False,
                    suppress_health_check=list(HealthCheck),
                    phases=[Phase.generate, Phase.shrink] if shrink else [Phase.generate])


def _run_given(mod, tier, S, n, col):
    """Run n generated cases (seeded), collecting every result; never stops at
    the first failure (collect-then-shrink)."""
    from hypothesis import given, seed
    strat = mod.strategy(tier)

    def body(case):
        col.add(case, mod.run_case(case))

    seed(S)(_hyp_settings(n, False)(given(strat)(body)))()


def _candidates(x, path=()):
    """Generic structural simplifications of a JSON value: (path, new value)."""
    if isinstance(x, dict):
        if x.get('mode') not in (None, 'none') and ('pre' in x or 'walk' in x or 'prio' in x):
            yield path, {'mode': 'none'}
        for k in x:
            yield from _candidates(x[k], path + (k,))
    elif isinstance(x, list):
        n = len(x)
        if n > 8:
            yield path, x[:n // 2]
            yield path, x[n // 2:]
            if all(isinstance(e, int) for e in x) and any(x):
                yield path, [0] * n
                h = n // 2
                yield path, [0] * h + x[h:]
                yield path, x[:h] + [0] * (n - h)
        if n <= 40:
            for i in range(n - 1, -1, -1):
                yield path, x[:i] + x[i + 1:]
        for i in range(min(n, 60)):
            yield from _candidates(x[i], path + (i,))
    elif isinstance(x, bool):
        if x:
            yield path, False
    elif isinstance(x, (int, float)):
        if x not in (0, None):
            yield path, 0
            if isinstance(x, int) and x > 1:
                yield path, x // 2
                yield path, x - 1
    elif x is not None and not isinstance(x, str):
        pass


def _complexity(x):
    nums = []

    def walk(v):
        if isinstance(v, dict):
            for e in v.values():
                walk(e)
        elif isinstance(v, list):
            for e in v:
                walk(e)
        elif isinstance(v, (int, float)) and not isinstance(v, bool):
            nums.append(abs(v))
    walk(x)
    return (len(json.dumps(x, default=repr)), sum(nums))


def _set_path(case, path, val):
    import copy
    c = copy.deepcopy(case)
    if not path:
        return val
    cur = c
    for k in path[:-1]:
        cur = cur[k]
    cur[path[-1]] = val
    return c


def shrink(mod, case, sig, budget):
    """Greedy structural shrinking that stays inside the generator's domain
    (mod.valid) and keeps the violation signature.  Bypasses Hypothesis, so no
    5-minute cap and fully deterministic."""
    valid = getattr(mod, 'valid', None)
    if valid is None:
        return case, 0
    used = 0
    cur = case
    improved = True
    extra = getattr(mod, 'simplify', None)
    while improved and used < budget:
        improved = False
        cands = list(_candidates(cur))
        if extra is not None:
            cands = [((), c) for c in extra(cur)] + cands
        for path, val in cands:
            if used >= budget:
                break
            try:
                cand = _set_path(cur, path, val)
                if cand is None or not valid(cand):
                    continue
                if _complexity(cand) >= _complexity(cur):
                    continue
                used += 1
                res = mod.run_case(cand)
            except Exception:  # noqa - an invalid candidate must not kill the run
                continue
            if any(v['sig'] == sig for v in res.violations):
                cur = cand
                improved = True
                break
    return cur, used


def _run_machines(mod, tier, S, n, col):
    from hypothesis import seed
    from hypothesis.stateful import run_state_machine_as_test
    from hypothesis import settings, HealthCheck, Phase
    for name, factory, steps in mod.machines(tier):
        M = factory(col)
        st_ = settings(max_examples=n, deadline=None, database=None, derandomize=False,
                       report_multiple_bugs=False, print_blob=False,
                       stateful_step_count=steps,
                       suppress_health_check=list(HealthCheck),
                       phases=[Phase.generate])
        run_state_machine_as_test(seed(S)(M), settings=st_)


def _corpus_preemptions(mod, tier, shard, nshards, col):
    """Bounded schedule enumeration around the regression corpus: for every stored program (its schedule dropped) every
    schedule with exactly one forced switch - decision index x thread to switch to - and, in the thorough tier, every
    schedule with two forced switches at most WINDOW decisions apart.  The programs are the small shrunk ones that once
    exposed a defect or a seeded change; one-line race windows next to them are covered by construction, not by chance."""
    cfg = dict({'threads': 3, 'max_decisions': {'quick': 400, 'thorough': 1500}, 'window': 12}, **mod.CORPUS_PREEMPTIONS)
    d = os.path.join(ROOT, 'corpus', mod.ID)
    seen = set()
    k = 0
    if not os.path.isdir(d):
        return
    for fn in sorted(os.listdir(d)):
        if not fn.endswith('.json'):
            continue
        doc = json.load(open(os.path.join(d, fn)))
        case = doc['case'] if 'case' in doc else doc
        if not isinstance(case, dict) or 'sched' not in case:
            continue
        base = dict(case, sched={'mode': 'none'})
        h = case_hash(base)
        if h in seen or (hasattr(mod, 'valid') and not mod.valid(base)):
            continue
        seen.add(h)
        res = mod.run_case(base)
        nd = int(res.stats.get('decisions', 0))
        col.stats['preemption_programs'] = col.stats.get('preemption_programs', 0) + (1 if shard == 0 else 0)
        lim = min(nd + 4, cfg['max_decisions'][tier])
        tos = range(1, cfg['threads'] + 1)
        for dec in range(1, lim):
            for to in tos:
                k += 1
                if k % nshards == shard:
                    c = dict(base, sched={'mode': 'sparse', 'pre': [[dec, to]]})
                    col.add(c, mod.run_case(c))
                    col.stats['single_preemptions'] = col.stats.get('single_preemptions', 0) + 1
        # delay injection: the thread that is about to execute the line event with step number s is descheduled for
        # d virtual seconds (only for checks whose oracle does not measure promptness: opt-in through 'stalls')
        if cfg.get('stalls') and (cfg.get('stall_filter') is None or cfg['stall_filter'](base)):
            ns = int(res.stats.get('steps', 0))
            for step in range(1, min(ns + 2, cfg.get('max_steps', {'quick': 700, 'thorough': 4000})[tier])):
                for dur in cfg['stalls']:
                    k += 1
                    if k % nshards == shard:
                        c = dict(base, sched={'mode': 'stall', 'at': [[step, dur]]})
                        col.add(c, mod.run_case(c))
                        col.stats['single_stalls'] = col.stats.get('single_stalls', 0) + 1
        # staggered delays at one line (check-then-act windows): the first thread to reach line L is held there for d1,
        # the second for d2 - for every line the base run executed (the harness reports them in stats['lines'])
        if cfg.get('stagger') and res.stats.get('lines'):
            for f, ln in res.stats['lines']:
                for d1, d2 in cfg['stagger']:
                    k += 1
                    if k % nshards == shard:
                        c = dict(base, sched={'mode': 'stall', 'at': [[f, ln, 0, d1], [f, ln, 1, d2]]})
                        col.add(c, mod.run_case(c))
                        col.stats['staggered_stalls'] = col.stats.get('staggered_stalls', 0) + 1
        if tier == 'thorough':
            for dec in range(1, lim):
                for dec2 in range(dec + 1, min(dec + 1 + cfg['window'], lim + cfg['window'])):
                    for to in tos:
                        for to2 in tos:
                            k += 1
                            if k % nshards == shard:
                                c = dict(base, sched={'mode': 'sparse', 'pre': [[dec, to], [dec2, to2]]})
                                col.add(c, mod.run_case(c))
                                col.stats['double_preemptions'] = col.stats.get('double_preemptions', 0) + 1


def worker(args):
    pid, tier, seed_, shard, nshards = args
    sys.setrecursionlimit(10000)
    col = Collector()
    t0 = time.time()
    try:
        mod = load_prop(pid)
        S = seed_ * 1000 + shard
        n = mod.BUDGET[tier]
        if n and hasattr(mod, 'strategy'):
            _run_given(mod, tier, S, n, col)
        if hasattr(mod, 'machines'):
            _run_machines(mod, tier, S, getattr(mod, 'MACHINE_BUDGET', mod.BUDGET)[tier], col)
        if hasattr(mod, 'enumerate_cases'):
            import inspect
            if len(inspect.signature(mod.enumerate_cases).parameters) >= 3:
                # the module shards its own enumeration (expensive generators)
                for case in mod.enumerate_cases(tier, shard, nshards):
                    col.add(case, mod.run_case(case))
                    col.stats['enumerated'] = col.stats.get('enumerated', 0) + 1
            else:
                for i, case in enumerate(mod.enumerate_cases(tier)):
                    if i % nshards == shard:
                        col.add(case, mod.run_case(case))
                        col.stats['enumerated'] = col.stats.get('enumerated', 0) + 1
        if getattr(mod, 'CORPUS_PREEMPTIONS', None) is not None:
            _corpus_preemptions(mod, tier, shard, nshards, col)
        if hasattr(mod, 'extra') and shard == 0:
            mod.extra(tier, seed_, col)
        # collect-then-shrink: shrink up to 3 new buckets in this shard
        known = load_known()
        todo = [b for b in col.buckets.values()
                if not match_known(pid, b['sig'], known) and b.get('shrinkable', True)]
        todo.sort(key=lambda b: b['size'])
        for b in todo[:3]:
            budget = 250 if tier == 'quick' else 2500
            best, used = shrink(mod, b['case'], b['sig'], budget)
            if best is not b['case']:
                res = mod.run_case(best)
                b.update(case=jsonable(best), size=len(json.dumps(best)), shrunk=True,
                         observed=jsonable(res.summary))
                for v in res.violations:
                    if v['sig'] == b['sig']:
                        b['msg'] = v['msg']
            b['shrink_evals'] = used
    except BaseException as e:  # noqa
        col.errors.append(''.join(traceback.format_exception(type(e), e, e.__traceback__))[-4000:])
    out = col.dump()
    out['wall'] = time.time() - t0
    out['shard'] = shard
    return out


# --------------------------------------------------------------------------
def load_known():
    """known_findings.txt lines:
         known: property=<ID> sig=<sig> <what fails>
         fixed: property=<ID> <commit> <what failed>
    """
    path = os.path.join(ROOT, 'known_findings.txt')
    out = []
    if os.path.exists(path):
        for line in open(path):
            line = line.strip()
            if line.startswith('known:'):
                parts = line.split(None, 3)
                prop = parts[1].split('=', 1)[1]
                sig = parts[2].split('=', 1)[1]
                out.append({'property': prop, 'sig': sig, 'what': parts[3] if len(parts) > 3 else ''})
    return out


def match_known(pid, sig, known):
    for k in known:
        if k['property'] == pid and k['sig'] == sig:
            return k
    return None


def replay_corpus(mod, col):
    d = os.path.join(ROOT, 'corpus', mod.ID)
    n = 0
    if os.path.isdir(d):
        for fn in sorted(os.listdir(d)):
            if fn.endswith('.json'):
                doc = json.load(open(os.path.join(d, fn)))
                case = doc['case'] if 'case' in doc else doc
                res = mod.run_case(case)
                col.add(case, res)
                n += 1
    return n


def write_replay(pid, tier, seed_, b):
    os.makedirs(os.path.join(ROOT, 'replays'), exist_ok=True)
    h = case_hash(b['case'])
    kind = ''.join(ch if ch.isalnum() else '-' for ch in b['sig'])[:60]
    path = os.path.join('replays', f'{pid}-{kind}-{h}.json')
    doc = {'property': pid, 'tier': tier, 'seed': seed_, 'case': b['case'],
           'violation': {'kind': b['kind'], 'sig': b['sig'], 'msg': b['msg']},
           'observed': b.get('observed'), 'count_in_run': b['count'],
           'shrunk': b.get('shrunk', False),
           'replay_cmd': f'./check --replay {path}'}
    with open(os.path.join(ROOT, path), 'w') as f:
        json.dump(doc, f, indent=1, default=repr)
    return path


def run_check(pid, tier, seed_):
    t0 = time.time()
    mod = load_prop(pid)
    nshards = getattr(mod, 'SHARDS', {}).get(tier, min(16, os.cpu_count() or 1))
    col = Collector()
    corpus_n = 0
    try:
        corpus_n = replay_corpus(mod, col)
    except BaseException as e:  # noqa
        print('HARNESS ERROR during corpus replay:\n' + traceback.format_exc())
        return 2
    ctx = mp.get_context('fork')
    with ctx.Pool(nshards) as pool:
        outs = pool.map(worker, [(pid, tier, seed_, i, nshards) for i in range(nshards)], 1)
    errors = []
    nontrivial = set(col.nontrivial)
    classes = dict(col.classes)
    stats = dict(col.stats)
    evaluations = col.evaluations
    samples = list(col.samples)
    buckets = dict(col.buckets)
    notes = {}
    for o in outs:
        errors.extend(o['errors'])
        nontrivial.update(o['nontrivial'])
        evaluations += o['evaluations']
        for k, v in o['classes'].items():
            classes[k] = classes.get(k, 0) + v
        for k, v in o['stats'].items():
            stats[k] = stats.get(k, 0) + v
        if len(samples) < 5:
            samples.extend(o['samples'][:2])
        for sig, b in o['buckets'].items():
            cur = buckets.get(sig)
            if cur is None:
                buckets[sig] = b
            else:
                cnt = cur['count'] + b['count']
                if (b.get('shrunk', False), -b['size']) > (cur.get('shrunk', False), -cur['size']):
                    buckets[sig] = b
                buckets[sig]['count'] = cnt
        for k, v in o['notes'].items():
            notes.setdefault(k, []).extend(v if isinstance(v, list) else [v])
    if errors:
        print('HARNESS ERROR in %d shard(s):\n%s' % (len(errors), errors[0]))
        return 2
    known = load_known()
    rc = 0
    nviol = 0
    known_hit = {}
    lines = []
    for sig, b in sorted(buckets.items()):
        k = match_known(pid, sig, known)
        if k is not None:
            known_hit[sig] = b['count']
            lines.append(f"KNOWN-FINDING: property={pid} {k['what']} (sig={sig}, reproduced {b['count']}x in this run)")
            continue
        nviol += 1
        path = write_replay(pid, tier, seed_, b)
        lines.append(f'VIOLATION property={pid} replay={path}')
        lines.append(f"  kind={b['kind']} sig={sig} count={b['count']} msg={b['msg'][:300]}")
        rc = 1
    # degenerate generator guard
    degenerate = []
    for c in getattr(mod, 'ESSENTIAL', []):
        if evaluations and classes.get(c, 0) < 0.02 * evaluations:
            degenerate.append((c, classes.get(c, 0)))
    wall = time.time() - t0
    cov = {
        'evaluations': evaluations,
        'distinct_nontrivial': len(nontrivial),
        'rule': mod.RULE,
        'samples': samples[:5],
        'classes': dict(sorted(classes.items())),
        'stats': stats,
        'corpus_cases_replayed': corpus_n,
        'shards': nshards,
        'known_findings_reproduced': known_hit,
        'notes': notes,
    }
    if getattr(mod, 'ENUM_EXHAUSTIVE', {}).get(tier):
        cov['exhaustive'] = True
        cov['exhaustive_scope'] = mod.ENUM_EXHAUSTIVE[tier]
    ev = {'property_id': pid, 'tier': tier, 'seed': seed_, 'level': mod.LEVEL,
          'coverage': cov, 'assumptions': list(mod.ASSUMPTIONS),
          'wall_s': round(wall, 2), 'violations': nviol,
          'technique': getattr(mod, 'TECHNIQUE', '')}
    os.makedirs(os.path.join(ROOT, 'evidence'), exist_ok=True)
    with open(os.path.join(ROOT, 'evidence', pid + '.json'), 'w') as f:
        json.dump(ev, f, indent=1, default=repr)
    for ln in lines:
        print(ln)
    print(f'{pid} {tier} seed={seed_}: {evaluations} cases, {len(nontrivial)} distinct non-trivial, '
          f'{nviol} violation bucket(s), {len(known_hit)} known finding(s), {wall:.1f}s')
    if degenerate and rc == 0:
        print('HARNESS ERROR: generator degenerate, essential classes below 2%%: %s' % degenerate)
        return 2
    return rc


def run_replay(path):
    doc = json.load(open(path))
    pid = doc['property']
    mod = load_prop(pid)
    res = mod.run_case(doc['case'])
    known = load_known()
    rc = 0
    for v in res.violations:
        if match_known(pid, v['sig'], known):
            print(f"KNOWN-FINDING: property={pid} sig={v['sig']} {v['msg'][:300]}")
        else:
            print(f"VIOLATION property={pid} replay={path}")
            print(f"  kind={v['kind']} sig={v['sig']} msg={v['msg'][:1000]}")
            rc = 1
    print('observed:', json.dumps(jsonable(res.summary))[:3000])
    if rc == 0:
        print('replay: no (unlisted) violation on this tree')
    return rc


def main(argv):
    # every temporary directory of this run (lock files, victims' scratch, fuzz corpora) lives below one
    # directory that is removed when the run ends, however the shards exit
    import shutil
    import tempfile
    run_tmp = tempfile.mkdtemp(prefix='vf_run_')
    os.environ['TMPDIR'] = run_tmp
    tempfile.tempdir = run_tmp
    try:
        return _main(argv)
    finally:
        shutil.rmtree(run_tmp, ignore_errors=True)


def _main(argv):
    sys.path.insert(0, REPO)
    if argv and argv[0] == '--replay':
        return run_replay(argv[1])
    if len(argv) < 1:
        print('usage: check <ID> [quick|thorough] | check --replay <file>')
        return 2
    pid = argv[0].upper()
    tier = argv[1] if len(argv) > 1 else os.environ.get('VERIF_TIER', 'quick')
    seed_ = int(os.environ.get('VERIF_SEED', '0') or 0)
    try:
        return run_check(pid, tier, seed_)
    except Exception:  # noqa
        print('HARNESS ERROR:\n' + traceback.format_exc())
        return 2


if __name__ == '__main__':
    sys.exit(main(sys.argv[1:]))
