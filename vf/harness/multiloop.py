"""A function decorated with async_background_batcher used from several event loops,
successively and concurrently (C15).

case = {'cfg': {'mbs','mcb','bt','ret'}, 'form': 'deco'|'deco-opts',
        'phases': [ [ [ {'at': t, 'name': 'a'}, ... ]   one list of calls per loop/thread of the phase
                    ], ... ],                             phases run one after another
        'bdur': d, 'sched': {...}}
"""
import asyncio as aio
import gc

from vf.harness.batcher import Arg, Val
from vf.sim.world import World, classify_stop

TRACE = ('aiuti/asyncio.py',)


def run(case, max_steps=150000):
    from aiuti import asyncio as A
    cfg = case['cfg']
    batches = []
    callers = []
    with World(schedule=case['sched'], trace=TRACE, modules=(A,), max_steps=max_steps) as w:
        sim = w.sim

        async def bf(items):
            items = list(items)
            loop = aio.get_running_loop()
            rec = {'id': len(batches), 'loop': loop.sim_name, 'start': sim.now,
                   'items': [(k, a.i) for k, a in items], 'end': None}
            batches.append(rec)
            if case['bdur']:
                await aio.sleep(case['bdur'])
            for n, (k, a) in enumerate(items):
                yield k, Val(rec['id'], k, n)
            rec['end'] = sim.now

        kw = dict(max_batch_size=cfg['mbs'], max_concurrent_batches=cfg['mcb'], batch_timeout=cfg['bt'],
                  retention_timeout=cfg['ret'])
        fn = A.async_background_batcher(bf, **kw) if case['form'] == 'deco' else A.async_background_batcher(**kw)(bf)
        done_phase = [0] * len(case['phases'])

        def make_thread(p, li, spec):
            # spec: a list of calls, or {'calls': [...], 'then': [...]}: the loop is left stopped (not closed) after its
            # calls, and is run again for the 'then' calls once the next phase is over
            calls = spec['calls'] if isinstance(spec, dict) else spec
            then = spec.get('then') if isinstance(spec, dict) else None

            async def main(calls=calls, li=li):
                loop = aio.get_running_loop()
                t0 = loop.time()
                tasks = []

                async def call(rec, c):
                    rec['arrived'] = sim.now
                    try:
                        rec['outcome'] = ('ok', await fn(Arg(rec['i'], c['name'])))
                    except aio.CancelledError:
                        raise
                    except BaseException as e:  # noqa
                        if sim.aborted:
                            raise
                        rec['outcome'] = ('exc', e)
                    finally:
                        if not sim.aborted:
                            rec['done'] = sim.now
                    if c.get('nested'):
                        # like asyncio.to_thread(asyncio.run, inner()): the task hands work to another thread, which
                        # inherits a copy of this task's context and runs its own event loop that uses the function too
                        import contextvars
                        ctx = contextvars.copy_context()
                        box = {}

                        def inner_thread():
                            try:
                                ctx.run(lambda: aio.run(main(c['nested'], 100 + li)))
                            finally:
                                box['done'] = True
                        sim.spawn(inner_thread, name='P%dL%d-inner' % (p, li))
                        while not box.get('done'):
                            await aio.sleep(1 / 64)
                for c in sorted(calls, key=lambda c: c['at']):
                    d = t0 + c['at'] - loop.time()
                    if d > 0:
                        await aio.sleep(d)
                    rec = {'i': len(callers), 'phase': p, 'loop_index': li, 'loop': loop.sim_name, 'key': c['name'],
                           'part': 2 if calls is then else 1,
                           'arrived': None, 'done': None, 'outcome': None}
                    callers.append(rec)
                    t = loop.create_task(call(rec, c))
                    w.keep.append(t)
                    tasks.append(t)
                if tasks:
                    await aio.wait(tasks)

            def thread():
                if p > 0:
                    sim.block_until(lambda: done_phase[p - 1] >= len(case['phases'][p - 1]), what='previous-phase')
                    if li == 0:
                        # forget the loops of earlier phases completely so that their addresses can be reused
                        w.keep.clear()
                        sim.loops[:] = [l for l in sim.loops if not l.is_closed()]
                        gc.collect()
                if then is None:
                    try:
                        aio.run(main())
                    finally:
                        done_phase[p] += 1
                    return
                loop = w.new_loop()
                aio.set_event_loop(loop)
                try:
                    try:
                        loop.run_until_complete(main())
                    finally:
                        done_phase[p] += 1
                    if p + 1 < len(case['phases']):
                        sim.block_until(lambda: done_phase[p + 1] >= len(case['phases'][p + 1]), what='next-phase')
                    loop.run_until_complete(main(then))
                finally:
                    try:
                        left = aio.all_tasks(loop)
                        for t in left:
                            t.cancel()
                        if left:
                            loop.run_until_complete(aio.gather(*left, return_exceptions=True))
                    finally:
                        aio.set_event_loop(None)
                        loop.close()
            return thread

        def _calls(lp):
            cs = lp if isinstance(lp, list) else lp['calls'] + (lp.get('then') or [])
            return cs + [n for c in cs for n in (c.get('nested') or [])]
        hz = 60 + 10 * sum(c['at'] + cfg['bt'] + case['bdur'] for ph in case['phases'] for lp in ph for c in _calls(lp))

        def watchdog():
            sim.sleep(hz)
            sim.request_abort('horizon')
        sim.spawn(watchdog, name='watchdog', daemon=True)
        fns, names = [], []
        for p, ph in enumerate(case['phases']):
            for li, calls in enumerate(ph):
                fns.append(make_thread(p, li, calls))
                names.append('P%dL%d' % (p, li))
        w.run(fns, names=names)
        hist = {'stop': classify_stop(sim), 'batches': batches, 'callers': callers,
                'thread_excs': [(t.name, t.exc) for t in sim.threads if t.exc is not None],
                'steps': sim.steps, 'decisions': sim.decisions, 'now': sim.now,
                'deadlock_report': sim.deadlock_report, 'lines': sim.seen_lines}
    return hist


def abbreviate(hist):
    return {'stop': hist['stop'], 'batches': [{k: b[k] for k in ('id', 'loop', 'start', 'end', 'items')} for b in hist['batches']],
            'callers': [{'i': c['i'], 'phase': c['phase'], 'loop': c['loop'], 'key': c['key'], 'arrived': c['arrived'],
                         'done': c['done'], 'outcome': None if c['outcome'] is None else (c['outcome'][0], repr(c['outcome'][1]))}
                        for c in hist['callers']],
            'blocked': hist['deadlock_report'] if hist['stop'] != 'finished' else None}
