"""Interpreter for threadsafe_async_cache programs (C01, C05, C06).

case = {
  'cache': 'default' | 'mapping',
  'threads': [ {'runner': 'run'|'manual'|'resume' (+ 'pause': seconds the stopped loop stays idle before it is run again),
                'callers': [ {'at': t, 'key': 'a'|'b', 'cancel': t|None, 'timeout': tau|None}, ...],
                'end': {'mode': 'await'|'leave'|'stop', 'at': t} }, ... ],
  'plans': [ {'dur': d, 'outcome': 'ret'|'raise'}, ... ],   # per invocation, in entry order (cyclic)
  'sched': {...}
}
All instants are absolute virtual seconds from the start of the thread's main.
dur == -1: the wrapped function returns without suspending; dur == 0: sleep(0).

run(case) -> history dict (see bottom).
"""
import asyncio as aio
from collections.abc import MutableMapping

from vf.sim.world import World, classify_stop

TRACE = ('aiuti/asyncio.py', 'asyncio/runners.py')


class AnyEq:
    """A result object that compares equal to everything."""

    def __init__(self, key, inv):
        self.key, self.inv = key, inv

    def __eq__(self, other):
        return True

    def __ne__(self, other):
        return False

    __hash__ = object.__hash__

    def __repr__(self):
        return 'AnyEq(%r, %d)' % (self.key, self.inv)


class InvBaseFailure(BaseException):
    """Same, deriving directly from BaseException (like pytest's outcome exceptions)."""

    def __init__(self, inv):
        super().__init__(inv)
        self.inv = inv


class InvFailure(Exception):
    """Raised by the harness-owned wrapped function; tagged with the invocation."""

    def __init__(self, inv):
        super().__init__(inv)
        self.inv = inv


class RetainingMapping(MutableMapping):
    """A MutableMapping that is not a dict and retains everything."""

    def __init__(self):
        self.d = {}
        self.log = []

    def __getitem__(self, k):
        return self.d[k]

    def __setitem__(self, k, v):
        self.log.append(('set', k))
        self.d[k] = v

    def __delitem__(self, k):
        del self.d[k]

    def __iter__(self):
        return iter(self.d)

    def __len__(self):
        return len(self.d)


class Lru1Mapping(RetainingMapping):
    """Keeps only the most recently stored entry (a bounded cache: storing one key evicts the other)."""

    def __setitem__(self, k, v):
        self.log.append(('set', k))
        self.d.clear()
        self.d[k] = v


def horizon(case):
    h = 10.0
    for p in case['plans']:
        h += max(0, p['dur'])
    for t in case['threads']:
        h += t['end']['at'] + 60.0 + t.get('pause', 0)
        for c in t['callers']:
            h += c['at'] + (c['cancel'] or 0) + (c['timeout'] or 0)
    return h * 2 + 130


def run(case, max_steps=300000):
    from aiuti import asyncio as A
    invs = []          # invocation records
    callers = {}       # (thread, j) -> record
    task_owner = {}    # task -> (thread, j)
    stalls = {}        # (thread, j) -> stalled virtual seconds
    plans = case['plans']
    w = World(schedule=case['sched'], trace=TRACE, modules=(A,), max_steps=max_steps)
    with w:
        sim = w.sim
        cache = RetainingMapping() if case['cache'] == 'mapping' else Lru1Mapping() if case['cache'] == 'lru1' else None

        nesting = [0]

        def f(key):
            # a plain callable returning an awaitable (as the decorator's type allows); some invocations fail
            # right at call time, before any awaitable exists
            me = len(invs)
            loop = aio.get_running_loop()
            plan = plans[me % len(plans)]
            if plan['outcome'] == 'raise_sync':
                rec = {'id': me, 'key': key, 'loop': loop, 'loop_name': loop.sim_name, 'gen': loop.run_gen,
                       'caller': task_owner.get(aio.current_task()), 'enter': (sim.now, sim.steps),
                       'exit': (sim.now, sim.steps), 'kind': 'raise', 'value': None, 'live_others': [], 'after_success': []}
                rec['exc'] = InvFailure(me)
                invs.append(rec)
                raise rec['exc']
            return body(key, me, loop, plan)

        async def body(key, me, loop, plan):
            rec = {'id': me, 'key': key, 'loop': loop, 'loop_name': loop.sim_name, 'gen': loop.run_gen,
                   'caller': task_owner.get(aio.current_task()), 'enter': (sim.now, sim.steps),
                   'exit': None, 'kind': None, 'value': None, 'live_others': []}
            for r in invs:
                if r['key'] == key and r['exit'] is None and r['loop'].is_running() \
                        and r['loop'].run_gen == r['gen']:
                    rec['live_others'].append(r['id'])
            rec['after_success'] = [r['id'] for r in invs if r['key'] == key and r['kind'] == 'ret']
            invs.append(rec)
            try:
                if plan.get('nested') is not None and nesting[0] < 2:
                    # the computation asks the cached function for its own key (in its own task), bounded by a timeout:
                    # that call can only wait for this very computation
                    nesting[0] += 1      # (bounded: a wrapper that lets the nested call through would recurse for ever)
                    try:
                        rec['nested'] = ('ok', await aio.wait_for(wrapped(key), plan['nested']))
                    except (aio.TimeoutError, TimeoutError):
                        rec['nested'] = ('timeout', None)
                    except aio.CancelledError:
                        raise
                    except BaseException as e:  # noqa
                        if sim.aborted:
                            raise
                        rec['nested'] = ('exc', e)
                    finally:
                        nesting[0] -= 1
                if plan['dur'] >= 0:
                    await aio.sleep(plan['dur'])
                if plan['outcome'] in ('raise', 'raise_base'):
                    rec['kind'] = 'raise'
                    # 'raise_base': the invocation fails with an exception that derives directly from BaseException
                    rec['exc'] = InvFailure(me) if plan['outcome'] == 'raise' else InvBaseFailure(me)
                    raise rec['exc']
                rec['kind'] = 'ret'
                # None is a result too; so is an object that compares equal to everything (unittest.mock.ANY-like)
                rec['value'] = None if plan['outcome'] == 'ret_none' else AnyEq(key, me) if plan['outcome'] == 'ret_any' \
                    else ('value', key, me)
                return rec['value']
            except aio.CancelledError:
                if not sim.aborted:
                    rec['kind'] = 'cancel'
                    if plan.get('cleanup'):
                        # the computation takes a while to honour the cancellation (asynchronous clean-up): it is still
                        # in progress until that is over
                        try:
                            await aio.sleep(plan['cleanup'])
                        except aio.CancelledError:
                            pass
                raise
            finally:
                if not sim.aborted:
                    rec['exit'] = (sim.now, sim.steps)

        wrapped = A.threadsafe_async_cache(f, cache=cache) if cache is not None \
            else A.threadsafe_async_cache(f)

        def live_inv_for(key):
            # an open invocation on a loop that is running right now (a loop that was stopped with the
            # invocation pending and is run again later resumes that invocation)
            for r in invs:
                if r['key'] == key and r['exit'] is None and r['loop'].is_running():
                    return True
            return False

        def on_advance(old, new):
            for cid, c in callers.items():
                if c['arrived'] is None or c['done'] is not None:
                    continue
                loop = c['loop']
                if loop is None or not loop.is_running():
                    continue
                # itself computing?
                if any(r['caller'] == cid and r['exit'] is None for r in invs):
                    continue
                if not live_inv_for(c['key']):
                    stalls[cid] = stalls.get(cid, 0.0) + (new - old)
                    c.setdefault('stall_at', []).append((old, new))
        sim.on_advance.append(on_advance)

        def make_thread(i, spec):
            async def call(j, cs):
                rec = callers[(i, j)]
                loop = aio.get_running_loop()
                rec['loop'], rec['gen'] = loop, loop.run_gen
                rec['arrived'] = (sim.now, sim.steps)
                try:
                    if cs['timeout'] is not None:
                        v = await aio.wait_for(wrapped(cs['key']), cs['timeout'])
                    else:
                        v = await wrapped(cs['key'])
                    rec['outcome'] = ('ok', v)
                except aio.CancelledError as e:
                    if not sim.aborted:
                        rec['outcome'] = ('cancelled', e)
                    raise
                except BaseException as e:  # noqa
                    if sim.aborted:       # unwinding of an aborted run is not an observation
                        raise
                    rec['outcome'] = ('exc', e)
                finally:
                    if not sim.aborted:
                        rec['done'] = (sim.now, sim.steps)

            async def main():
                loop = aio.get_running_loop()
                t0 = loop.time()
                tasks = []

                def start(j, cs):
                    t = loop.create_task(call(j, cs))
                    task_owner[t] = (i, j)
                    callers[(i, j)]['task'] = t
                    tasks.append(t)
                    w.keep.append(t)
                    if cs['cancel'] is not None:
                        def do_cancel():
                            if not t.done():
                                callers[(i, j)]['cancel_req'] = (sim.now, sim.steps)
                                t.cancel()
                        loop.call_at(t0 + cs['cancel'], do_cancel)

                for j, cs in enumerate(spec['callers']):
                    callers[(i, j)] = {'key': cs['key'], 'arrived': None, 'done': None, 'outcome': None,
                                       'loop': None, 'gen': None, 'cancel_req': None, 'spec': cs,
                                       'left_pending': False, 'task': None}
                    loop.call_at(t0 + cs['at'], start, j, cs)
                end = spec['end']
                last = max([cs['at'] for cs in spec['callers']] + [0])
                async def await_all():
                    await aio.sleep(last)
                    for _ in range(3):
                        await aio.sleep(0)
                    while any(not t.done() for t in tasks):
                        await aio.wait([t for t in tasks if not t.done()])
                if end['mode'] == 'await':
                    await await_all()
                elif end['mode'] == 'leave':
                    await aio.sleep(end['at'])
                elif end['mode'] == 'cancel-all':
                    # the application cancels every other task of its loop (its own callers and whatever else runs
                    # there, e.g. waits scheduled by other loops) and awaits them while the loop keeps running
                    await aio.sleep(end['at'])
                    others = [t for t in aio.all_tasks() if t is not aio.current_task()]
                    for t in others:
                        if t in task_owner and not t.done():
                            callers[task_owner[t]]['cancel_req'] = (sim.now, sim.steps)
                        t.cancel()
                    if others:
                        await aio.gather(*others, return_exceptions=True)
                else:   # stop: the loop is stopped from a timer while main is pending
                    def do_stop():
                        mark_left()
                        loop.stop()
                    loop.call_at(t0 + end['at'], do_stop)
                    await await_all()

            def mark_left():
                if spec['runner'] == 'resume':
                    return
                for (ti, j), c in callers.items():
                    if ti == i and (c['task'] is None or not c['task'].done()):
                        c['left_pending'] = True

            def run_thread():
                if spec['runner'] == 'resume':
                    # run_until_complete returns with calls pending, the owner is busy elsewhere for a while
                    # (loop stopped, not closed), then runs the loop again until the leftovers are finished
                    loop = aio.new_event_loop()
                    try:
                        try:
                            loop.run_until_complete(main())
                        except RuntimeError as e:
                            if 'Event loop stopped' not in str(e):
                                raise
                        sim.sleep(spec.get('pause', 0.25))
                        left = [c['task'] for (ti, j), c in callers.items()
                                if ti == i and c['task'] is not None and not c['task'].done()]
                        if left:
                            loop.run_until_complete(aio.gather(*left, return_exceptions=True))
                    finally:
                        loop.close()
                elif spec['runner'] == 'run':
                    try:
                        aio.run(_mark(main(), mark_left))
                    except RuntimeError as e:   # 'Event loop stopped before Future completed.'
                        if 'Event loop stopped' not in str(e):
                            raise
                else:
                    loop = aio.new_event_loop()
                    try:
                        try:
                            loop.run_until_complete(_mark(main(), mark_left))
                        except RuntimeError as e:
                            if 'Event loop stopped' not in str(e):
                                raise
                    finally:
                        mark_left()
                        loop.close()    # leftovers are abandoned, not cancelled
            return run_thread

        async def _mark(coro, mark):
            try:
                return await coro
            finally:
                mark()

        hz = horizon(case)

        def watchdog():
            sim.sleep(hz)
            sim.request_abort('horizon')
        sim.spawn(watchdog, name='watchdog', daemon=True)
        w.run([make_thread(i, s) for i, s in enumerate(case['threads'])],
              names=['T%d' % i for i in range(len(case['threads']))])
        stop = classify_stop(sim)
        thread_excs = [(t.name, t.exc) for t in sim.threads if t.exc is not None]
        hist = {
            'stop': stop, 'invs': invs, 'callers': callers, 'stalls': stalls,
            'loop_log': list(sim.loop_log), 'thread_excs': thread_excs,
            'steps': sim.steps, 'decisions': sim.decisions, 'forced': w.chooser.forced,
            'now': sim.now, 'deadlock_report': sim.deadlock_report, 'horizon': hz,
            'lines': sim.seen_lines, 'cache_log': cache.log if cache is not None else None,
        }
    return hist


def innermost_aiuti_frame(exc):
    tb = exc.__traceback__
    best = None
    while tb is not None:
        fn = tb.tb_frame.f_code.co_filename
        if fn.endswith('aiuti/asyncio.py'):
            best = tb.tb_frame.f_code.co_name
        tb = tb.tb_next
    return best


def abbreviate(hist):
    """JSON-able excerpt for evidence samples / replay files."""
    out = {'stop': hist['stop'], 'steps': hist['steps'], 'decisions': hist['decisions'],
           'virtual_end': hist['now'], 'invocations': [], 'callers': {}}
    for r in hist['invs']:
        out['invocations'].append({'id': r['id'], 'key': r['key'], 'loop': r['loop_name'],
                                   'by': r['caller'], 'enter': r['enter'], 'exit': r['exit'],
                                   'kind': r['kind'], 'live_others': r['live_others']})
    for cid, c in hist['callers'].items():
        o = c['outcome']
        out['callers']['%d.%d' % cid] = {
            'key': c['key'], 'arrived': c['arrived'], 'done': c['done'],
            'outcome': None if o is None else (o[0], repr(o[1])),
            'cancel_req': c['cancel_req'], 'left_pending': c['left_pending'],
            'stall': hist['stalls'].get(cid, 0)}
    out['loop_log'] = hist['loop_log'][:40]
    if hist['deadlock_report']:
        out['blocked'] = hist['deadlock_report']
    return out
