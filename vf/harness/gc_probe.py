"""A garbage collection that starts inside threadsafe_async_cache's locked block (C05, real threads, own process).

case = {'kind': 'gc', 'abandoned': 1|2, 'same_key': bool, 'collect_at': n}
  `abandoned` computations are left pending on loops that are then closed (never cancelled) and dropped;
  a later call (for the same key, or another one) allocates asyncio.Event objects inside the wrapper's locked block;
  at the collect_at-th such allocation a cyclic collection runs (automatic collection is off, so the instant is chosen).
Prints one JSON line: {'finished': bool, 'outcome': ...}.  Run as: python -m vf.harness.gc_probe '<case json>' <repo>
"""
import asyncio
import gc
import json
import os
import sys
import threading


def main():
    case = json.loads(sys.argv[1])
    sys.path.insert(0, sys.argv[2])
    import aiuti.asyncio as A
    gc.disable()
    state = {'n': 0}

    @A.threadsafe_async_cache
    async def f(x):
        state['n'] += 1
        if state['n'] <= case['abandoned']:
            await asyncio.sleep(3600)       # never finishes: its loop is closed under it
        return ('value', x, state['n'])

    def abandon(key):
        loop = asyncio.new_event_loop()
        t = loop.create_task(f(key))
        loop.run_until_complete(asyncio.sleep(0.02))
        loop.close()
        del t

    for i in range(case['abandoned']):
        abandon(i)
    real = asyncio.Event
    count = {'n': 0}

    class CollectingEvent(real):
        def __init__(self, *a, **k):
            count['n'] += 1
            if count['n'] == case['collect_at']:
                gc.collect()
            super().__init__(*a, **k)
    A.aio.Event = CollectingEvent
    out = {}

    def later():
        async def m():
            out['outcome'] = repr(await asyncio.wait_for(f(0 if case['same_key'] else 99), 3))
        try:
            asyncio.run(m())
        except BaseException as e:  # noqa
            out['outcome'] = repr(e)
    th = threading.Thread(target=later, daemon=True)
    th.start()
    th.join(6)
    print(json.dumps({'finished': 'outcome' in out, 'outcome': out.get('outcome'), 'events_allocated': count['n']}))
    sys.stdout.flush()
    os._exit(0)


if __name__ == '__main__':
    main()
