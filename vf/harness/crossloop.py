"""Interpreter for ensure_aw / run_aw_threadsafe / loop_in_thread programs (C17).

case = {
  'target': 'idle' | 'running' | 'own' | 'closed',
  'lit': None | {'start': t, 'hold': d},        only for target 'running': a starter thread calls
                                                 stop = loop_in_thread(target) at t, and stop() once every
                                                 caller is done and at least `hold` seconds have passed
  'callers': [ {'start': t, 'via': 'ensure_aw'|'run_aw_threadsafe',
                'aw': {'kind': 'coro'|'task'|'future', 'dur': d, 'outcome': 'ret'|'raise'}} , ... ],
  'sched': {...}
}
Each caller is its own thread with its own event loop.  'task' / 'future'
awaitables for a foreign target are created on the target loop by the harness
before anything runs (creating them from another thread would itself be a
thread-safety violation of asyncio).
"""
import asyncio as aio
import sys

from vf.sim.world import World, classify_stop
from vf.sim.loop import SimLoop

TRACE = ('aiuti/asyncio.py',)


class AwBoom(Exception):
    pass


class AwFalsyBoom(AwBoom):
    """An exception whose instances are falsy (an aggregate of problems that has none)."""

    def __len__(self):
        return 0


# record how each run_forever was entered (directly = loop_in_thread; via run_until_complete = a borrower)
_orig_rf = SimLoop.run_forever


def _rf(self):
    via = sys._getframe(1).f_code.co_name
    self.sim.run_via = getattr(self.sim, 'run_via', {})
    self.sim.run_via[(self.sim_name, self.run_gen + 1)] = via
    return _orig_rf(self)


SimLoop.run_forever = _rf


def run(case, max_steps=150000):
    from aiuti import asyncio as A
    callers = []
    obs = {'lit': None}
    with World(schedule=case['sched'], trace=TRACE, modules=(A,), max_steps=max_steps) as w:
        sim = w.sim
        sim.run_via = {}
        # record when a caller goes down ensure_aw's "target is running: schedule onto it" path (the module-global lookup
        # of run_aw_threadsafe inside ensure_aw goes through this recorder; it adds no scheduling point)
        own_loops = {}
        orig_ts = A.run_aw_threadsafe

        def ts_recorder(aw, loop):
            try:
                i = own_loops.get(id(aio.get_running_loop()))
            except RuntimeError:
                i = None
            if i is not None and callers[i].get('ts_path') is None:
                callers[i]['ts_path'] = (sim.now, sim.steps)
            return orig_ts(aw, loop)
        A.run_aw_threadsafe = ts_recorder
        w.inst.undo.append((A, 'run_aw_threadsafe', orig_ts))
        kind = case['target']
        target = w.new_loop() if kind != 'own' else None
        closed_done = {}
        if kind == 'closed':
            # futures / tasks of the target that had already finished before it was closed
            for i, c in enumerate(case['callers']):
                if c['aw']['kind'] in ('future', 'task'):
                    f = target.create_future()
                    if c['aw']['outcome'] == 'raise':
                        f.set_exception((AwFalsyBoom if c['aw'].get('falsy') else AwBoom)(i))
                        f.exception()
                    else:
                        f.set_result(('result', i))
                    closed_done[i] = f
            target.close()
        state = {'done': 0, 'lit_running': False}
        n = len(case['callers'])

        def make_work(i, spec, tloop_getter):
            async def work():
                rec = callers[i]
                rec['aw_loop_ok'] = aio.get_running_loop() is tloop_getter()
                rec['aw_started'] = (sim.now, sim.steps)
                if spec['dur'] > 0:
                    await aio.sleep(spec['dur'])
                rec['aw_finished'] = (sim.now, sim.steps)
                if spec['outcome'] == 'raise':
                    rec['obj'] = (AwFalsyBoom if spec.get('falsy') else AwBoom)(i)
                    raise rec['obj']
                if spec['outcome'] == 'cancel':
                    # the awaitable itself ends in a cancellation (it awaited something that was cancelled): that is its outcome
                    rec['obj'] = 'cancelled'
                    raise aio.CancelledError('the awaitable was cancelled')
                rec['obj'] = ('result', i)
                return rec['obj']
            return work

        pre = {}
        for i, c in enumerate(case['callers']):
            callers.append({'i': i, 'called': None, 'done': None, 'outcome': None, 'aw_loop_ok': None,
                            'aw_started': None, 'aw_finished': None, 'obj': None, 'target_running_at_call': None, 'ts_path': None})
            spec = c['aw']
            if kind in ('idle', 'running') and spec['kind'] in ('task', 'future'):
                work = make_work(i, spec, lambda: target)
                if spec['kind'] == 'task':
                    pre[i] = target.create_task(work())
                else:
                    f = target.create_future()

                    def resolve(f=f, i=i, spec=spec):
                        rec = callers[i]
                        rec['aw_loop_ok'] = True      # a bare future has no body to observe
                        rec['aw_finished'] = (sim.now, sim.steps)
                        if spec['outcome'] == 'raise':
                            rec['obj'] = (AwFalsyBoom if spec.get('falsy') else AwBoom)(i)
                            f.set_exception(rec['obj'])
                        else:
                            rec['obj'] = ('result', i)
                            f.set_result(rec['obj'])
                    # the timer starts counting when the target first runs after the call
                    pre[i] = (f, resolve)
                w.keep.append(pre[i])

        def make_caller(i, c):
            spec = c['aw']

            async def main():
                rec = callers[i]
                own = aio.get_running_loop()
                own_loops[id(own)] = i
                tl = own if kind == 'own' else target
                if case.get('gate') and kind == 'running':
                    # safe class: callers start only after loop_in_thread has returned
                    while obs['lit'] is None or 'returned' not in obs['lit']:
                        await aio.sleep(1 / 64)
                if c['start'] > 0:
                    await aio.sleep(c['start'])
                if i in pre:
                    if spec['kind'] == 'task':
                        aw = pre[i]
                    else:
                        f, resolve = pre[i]
                        tl.call_soon_threadsafe(tl.call_later, spec['dur'], resolve)
                        aw = f
                elif i in closed_done:
                    aw = closed_done[i]
                else:
                    work = make_work(i, spec, lambda: tl)
                    if spec['kind'] == 'coro' or kind == 'closed':
                        aw = work()
                    elif spec['kind'] == 'task':
                        aw = own.create_task(work())
                    else:
                        aw = own.create_future()

                        def resolve():
                            rec['aw_loop_ok'] = True
                            rec['aw_finished'] = (sim.now, sim.steps)
                            if spec['outcome'] == 'raise':
                                rec['obj'] = (AwFalsyBoom if spec.get('falsy') else AwBoom)(i)
                                aw.set_exception(rec['obj'])
                            else:
                                rec['obj'] = ('result', i)
                                aw.set_result(rec['obj'])
                        own.call_later(spec['dur'], resolve)
                    w.keep.append(aw)
                rec['called'] = (sim.now, sim.steps)
                rec['target_running_at_call'] = (not tl.is_closed()) and tl.is_running()
                try:
                    if c['via'] == 'ensure_aw':
                        v = await A.ensure_aw(aw, tl)
                    else:
                        v = await A.run_aw_threadsafe(aw, tl)
                    rec['outcome'] = ('ok', v)
                except aio.CancelledError as e:
                    if not sim.aborted:
                        rec['outcome'] = ('cancelled', e)
                    if sim.aborted or spec['outcome'] != 'cancel':
                        raise
                except BaseException as e:  # noqa
                    if sim.aborted:       # unwinding of an aborted run is not an observation
                        raise
                    rec['outcome'] = ('exc', e)
                finally:
                    if not sim.aborted:
                        rec['done'] = (sim.now, sim.steps)

            def thread():
                try:
                    aio.run(main())
                finally:
                    state['done'] += 1
            return thread

        def starter():
            lit = case['lit']
            if lit['start'] > 0:
                sim.sleep(lit['start'])
            o = {'start_called': (sim.now, sim.steps)}
            obs['lit'] = o
            stop = A.loop_in_thread(target)
            o['returned'] = (sim.now, sim.steps)
            o['running_at_return'] = target.is_running()
            if lit['hold'] > 0:
                sim.sleep(lit['hold'])
            if not lit.get('stop_early'):      # stop_early: stop() is called while callers may still be under way
                sim.block_until(lambda: state['done'] >= n, what='callers-done')
            o['stop_called'] = (sim.now, sim.steps)
            stop()
            o['stop_returned'] = (sim.now, sim.steps)
            o['log_at_stop_return'] = len(sim.loop_log)

        hz = 80.0 + sum(c['start'] + c['aw']['dur'] for c in case['callers']) * 3 + \
            ((case['lit']['start'] + case['lit']['hold']) if case.get('lit') else 0)

        def watchdog():
            sim.sleep(hz)
            sim.request_abort('horizon')
        sim.spawn(watchdog, name='watchdog', daemon=True)
        fns = [make_caller(i, c) for i, c in enumerate(case['callers'])]
        names = ['C%d' % i for i in range(n)]
        if kind == 'running' and case.get('lit'):
            fns.append(starter)
            names.append('starter')
        w.run(fns, names=names)
        hist = {'stop': classify_stop(sim), 'callers': callers, 'lit': obs['lit'],
                'loop_log': list(sim.loop_log), 'run_via': dict(sim.run_via),
                'target': target.sim_name if target is not None else None,
                'thread_excs': [(t.name, t.exc) for t in sim.threads if t.exc is not None],
                'steps': sim.steps, 'decisions': sim.decisions, 'forced': w.chooser.forced, 'now': sim.now,
                'deadlock_report': sim.deadlock_report, 'lines': sim.seen_lines}
    return hist


def abbreviate(hist):
    return {'stop': hist['stop'], 'virtual_end': hist['now'], 'steps': hist['steps'], 'target': hist['target'],
            'callers': [{'i': c['i'], 'called': c['called'], 'done': c['done'],
                         'outcome': None if c['outcome'] is None else (c['outcome'][0], repr(c['outcome'][1])),
                         'aw_on_target_loop': c['aw_loop_ok'], 'aw_started': c['aw_started'], 'aw_finished': c['aw_finished'],
                         'target_running_at_call': c['target_running_at_call'],
                         'took_schedule_onto_running_target_path_at': c.get('ts_path')} for c in hist['callers']],
            'loop_in_thread': hist['lit'],
            'target_runs': [(e, hist['run_via'].get((e[1], e[2]))) for e in hist['loop_log'] if e[1] == hist['target']][:30],
            'blocked': hist['deadlock_report'] if hist['stop'] != 'finished' else None}
