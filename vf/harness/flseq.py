"""Sequential FileLock interpreter with an executable contract model (C12).

Operations run one at a time; "threads" T1/T2 are actor identities carried by
the in-process lock shims (thread identity matters only to Lock/RLock), the
clock is virtual, flock is the real one issued non-blocking on real
descriptors (per-open-file-description semantics kept), os.open/os.close are
real with a ledger and an OSError injection table.

case = {'reentrant': {'A': bool, 'B': bool}, 'default_timeout': -1 | 0.1,
        'ops': [ {'op': 'acquire', 'o': 'A', 't': 'T1', 'blocking': bool, 'timeout': None|-1|0|0.1}
                 {'op': 'with_enter' | 'ctx_enter', 'o', 't', ('blocking','timeout' for ctx)}
                 {'op': 'release', 'o', 't', 'force': bool}      (also stands for with/ctx exit)
               ],
        'inject': [call indices over the sequence of os.open/flock/unlock/os.close calls]}
"""
import fcntl as real_fcntl
import os as real_os
import tempfile
import types

POLL = 0.05
EPS = 1e-9


_DIRS = {}


def _lockdir():
    """One scratch directory per process (removed at exit)."""
    import atexit
    import shutil
    pid = real_os.getpid()
    if pid not in _DIRS:
        d = tempfile.mkdtemp(prefix='vf_fl_')
        _DIRS[pid] = d
        atexit.register(shutil.rmtree, d, True)
    return _DIRS[pid]


class WouldHang(Exception):
    pass


class World:
    def __init__(self):
        self.now = 0.0
        self.actor = None
        self.locks = []
        self.open_fds = {}
        self.calls = []
        self.inject = set()

    def tick(self, kind):
        i = len(self.calls)
        bad = i in self.inject
        self.calls.append((kind, not bad))
        return bad


def make_shims(W):
    class SLock:
        def __init__(s):
            s.owner = None
            s.depth = 0
            W.locks.append(s)

        def acquire(s, blocking=True, timeout=-1):
            if not blocking and timeout != -1:
                raise ValueError("can't specify a timeout for a non-blocking call")
            if timeout < 0 and timeout != -1:
                raise ValueError('timeout value must be a non-negative number')
            if s.owner is None:
                s.owner = W.actor
                s.depth = 1
                return True
            if not blocking:
                return False
            if timeout < 0:
                raise WouldHang('in-process lock')
            W.now += timeout
            return False

        def release(s):
            if s.owner is None:
                raise RuntimeError('release unlocked lock')
            s.owner = None
            s.depth = 0

    class SRLock:
        def __init__(s):
            s.owner = None
            s.depth = 0
            W.locks.append(s)

        def acquire(s, blocking=True, timeout=-1):
            if not blocking and timeout != -1:
                raise ValueError("can't specify a timeout for a non-blocking call")
            if timeout < 0 and timeout != -1:
                raise ValueError('timeout value must be a non-negative number')
            if s.owner in (None, W.actor):
                s.owner = W.actor
                s.depth += 1
                return True
            if not blocking:
                return False
            if timeout < 0:
                raise WouldHang('in-process rlock')
            W.now += timeout
            return False

        def release(s):
            if s.owner != W.actor or s.owner is None:
                raise RuntimeError('cannot release un-acquired lock')
            s.depth -= 1
            if s.depth == 0:
                s.owner = None

    def flock(fd, op):
        if op & real_fcntl.LOCK_UN:
            if W.tick('unlock'):
                raise OSError(5, 'injected: unlock failed')
            return real_fcntl.flock(fd, op)
        if W.tick('flock'):
            raise OSError(37, 'injected: no locks available')
        try:
            real_fcntl.flock(fd, op | real_fcntl.LOCK_NB)
        except BlockingIOError:
            if op & real_fcntl.LOCK_NB:
                raise
            raise WouldHang('flock')

    def os_open(path, flags, mode=0o777):
        if W.tick('open'):
            raise OSError(24, 'injected: too many open files')
        fd = real_os.open(path, flags, mode)
        W.open_fds[fd] = path
        return fd

    def os_close(fd):
        bad = W.tick('close')
        real_os.close(fd)
        W.open_fds.pop(fd, None)
        if bad:
            raise OSError(5, 'injected: close failed (descriptor is closed)')

    def sleep(d):
        W.now += d

    th = types.SimpleNamespace(Lock=SLock, RLock=SRLock)
    tm = types.SimpleNamespace(time=lambda: W.now, sleep=sleep, monotonic=lambda: W.now)
    fc = types.ModuleType('fcntl_seq')
    fc.__dict__.update({k: v for k, v in real_fcntl.__dict__.items() if not k.startswith('__')})
    fc.flock = flock
    osm = types.ModuleType('os_seq')
    osm.__dict__.update({k: v for k, v in real_os.__dict__.items() if not k.startswith('__')})
    osm.open = os_open
    osm.close = os_close
    return th, tm, fc, osm


class Model:
    """The *contract* (Lock/RLock semantics + one OS holder per path), not the code."""

    def __init__(self, reent, deft):
        self.os = None
        self.deft = deft
        self.o = {n: dict(owner=None, held=False, depth=0, re=reent[n]) for n in 'AB'}
        self.ctx_open = {}       # (object, thread) -> number of open acquire_ctx() managers

    def snapshot(self):
        return (self.os, {n: dict(v) for n, v in self.o.items()}, tuple(sorted(self.ctx_open.items())))

    def restore(self, snap):
        self.os, self.o = snap[0], {n: dict(v) for n, v in snap[1].items()}
        self.ctx_open = dict(snap[2]) if len(snap) > 2 else {}

    def normalise(self, blocking, timeout):
        if timeout is None:
            timeout = self.deft if blocking else -1
        else:
            blocking = blocking if timeout < 0 else True
        return blocking, timeout

    def acquire(self, n, t, blocking, timeout):
        """-> ('hang', None) | (True|False, (min elapsed, max elapsed))"""
        o = self.o[n]
        blocking, timeout = self.normalise(blocking, timeout)
        free = o['owner'] is None or (o['re'] and o['owner'] == t)
        if not free:
            if not blocking:
                return False, (0, 0)
            if timeout < 0:
                return 'hang', None
            return False, (timeout, timeout)
        if o['held']:
            o['depth'] += 1
            return True, (0, 0)
        if self.os is None:
            self.os = n
            o.update(held=True, owner=t, depth=1)
            return True, (0, 0)
        if not blocking:
            return False, (0, 0)
        if timeout < 0:
            return 'hang', None
        return False, (timeout, timeout + POLL)

    def release(self, n, t, force):
        o = self.o[n]
        if not o['held']:
            return
        o['depth'] -= 1
        if o['depth'] == 0 or force:
            self.os = None
            o.update(held=False, depth=0, owner=None)


def run(case, lockdir=None):
    """-> dict(violations=[(kind, sig, msg)], trace=[...], stats)"""
    import importlib
    import logging
    logging.disable(logging.CRITICAL)
    F = importlib.import_module('aiuti.filelock')
    W = World()
    th, tm, fc, osm = make_shims(W)
    saved = (F.threading, F.time, F.fcntl, F.os)
    F.threading, F.time, F.fcntl, F.os = th, tm, fc, osm
    tmp = _lockdir()
    path = real_os.path.join(tmp, 'lock')
    viol = []
    trace = []
    stats = {'max_depth': 0, 'failed_acquires': 0, 'faults': 0, 'ops': 0}
    saved0 = None
    if case.get('fd0_free'):
        # a process whose descriptor 0 is free (daemon started with stdin closed): the lock file gets descriptor 0
        try:
            saved0 = real_os.dup(0)
            real_os.close(0)
        except OSError:
            saved0 = None
    fds0 = len(real_os.listdir('/proc/self/fd'))
    try:
        reent = case['reentrant']
        deft = case['default_timeout']
        objs = {n: F.FileLock(path, timeout=deft, reentrant=reent[n]) for n in 'AB'}
        shim = {n: W.locks[i] for i, n in enumerate('AB')}
        m = Model(reent, deft)
        W.inject = set(case.get('inject') or ())
        ctxs = []
        keep = []

        def check_state(step, faulted):
            for k in 'AB':
                mo = m.o[k]
                if objs[k].is_locked != mo['held']:
                    viol.append(('is_locked', 'is_locked:' + ('true-but-unheld' if objs[k].is_locked else 'false-but-held'),
                                 f'after op {step}: {k}.is_locked={objs[k].is_locked}, contract says held={mo["held"]}'))
                if shim[k].owner != mo['owner'] or (mo['re'] and shim[k].depth != mo['depth']):
                    viol.append(('in-process-lock', 'in-process-lock:' + ('kept' if shim[k].owner is not None and mo['owner'] is None
                                                                             else 'mismatch'),
                                 f'after op {step}: in-process lock of {k} owner={shim[k].owner} depth={shim[k].depth}; '
                                 f'contract owner={mo["owner"]} depth={mo["depth"]}'))
            nheld = sum(1 for k in 'AB' if m.o[k]['held'])
            if len(W.open_fds) != nheld:
                viol.append(('fd-ledger', 'fd-leak' if len(W.open_fds) > nheld else 'fd-missing',
                             f'after op {step}: {len(W.open_fds)} descriptors open for {nheld} held lock(s)'))
            if step == 'final-release' or faulted:
                real = len(real_os.listdir('/proc/self/fd')) - fds0
                if real != len(W.open_fds):
                    viol.append(('fd-ledger', 'fd-proc-mismatch',
                                 f'/proc/self/fd shows {real} extra descriptors, ledger {len(W.open_fds)}'))

        for step, op in enumerate(case['ops']):
            n, t = op['o'], op['t']
            W.actor = t
            stats['ops'] += 1
            ncalls0 = len(W.calls)
            if op['op'] in ('acquire', 'with_enter', 'ctx_enter'):
                if op['op'] == 'with_enter':
                    blocking, timeout = True, None
                else:
                    blocking, timeout = op.get('blocking', True), op.get('timeout')
                snap = m.snapshot()
                exp, el = m.acquire(n, t, blocking, timeout)
                if exp == 'hang':
                    m.restore(snap)
                    trace.append((step, op['op'], n, t, 'skipped: would block forever'))
                    continue
                t0 = W.now
                exc = None
                got = None
                try:
                    if op['op'] == 'acquire':
                        got = objs[n].acquire(blocking, timeout)
                    elif op['op'] == 'with_enter':
                        objs[n].__enter__()
                        got = True
                    else:
                        cm = objs[n].acquire_ctx(blocking, timeout)
                        keep.append(cm)          # keep referenced: a dropped ctx manager releases at GC
                        cm.__enter__()
                        ctxs.append(((n, t), cm))
                        got = True
                except WouldHang as e:
                    exc = e
                    got = 'HANG'
                except TimeoutError as e:
                    exc = e
                    got = False
                except Exception as e:  # noqa
                    exc = e
                    got = 'EXC'
                el_got = W.now - t0
                faulted = any(not ok for _, ok in W.calls[ncalls0:])
                trace.append((step, op['op'], n, t, blocking, timeout, 'expect', exp, 'got', got, repr(exc) if exc else None,
                              round(el_got, 4)))
                if faulted:
                    stats['faults'] += 1
                    # consistency only: True => held; otherwise nothing may have changed
                    if got is True and objs[n].is_locked:
                        pass          # adopt success
                    elif got is True:
                        viol.append(('acquire-lied', 'true-but-not-held', f'op {step} {op}: reported success but is_locked is False (fault injected)'))
                        m.restore(snap)
                    else:
                        m.restore(snap)
                        if got == 'EXC' and not isinstance(exc, OSError):
                            viol.append(('acquire-raised', 'raised:' + type(exc).__name__, f'op {step} {op}: raised {exc!r}'))
                else:
                    if got == 'HANG':
                        viol.append(('would-block-forever', 'blocks-forever', f'op {step} {op}: the contract says this returns, the '
                                     f'code blocks forever ({exc})'))
                        m.restore(snap)
                    elif got == 'EXC':
                        viol.append(('acquire-raised', 'raised:' + type(exc).__name__, f'op {step} {op}: raised {exc!r}'))
                        m.restore(snap)
                    elif got != exp:
                        if op['op'] == 'with_enter' and got is True and exp is False:
                            viol.append(('with-entered-without-lock', 'with-entered-without-lock',
                                         f'op {step}: with-block entered although the acquire timed out (default timeout {deft})'))
                        else:
                            viol.append(('wrong-result', 'acquire-result:' + ('true-for-false' if got else 'false-for-true'),
                                         f'op {step} {op}: returned/entered {got}, contract says {exp}'))
                        # adopt what the code reports so the remaining checks stay meaningful
                        m.restore(snap)
                        if got is True and objs[n].is_locked and m.o[n]['held'] is False and m.os is None:
                            m.os = n
                            m.o[n].update(held=True, owner=t, depth=1)
                    elif not (el[0] - EPS <= el_got <= el[1] + EPS):
                        viol.append(('timing', 'timing:' + ('too-long' if el_got > el[1] else 'too-short'),
                                     f'op {step} {op}: took {el_got:.4f}s of virtual time, contract allows [{el[0]}, {el[1]}]'))
                if exp is False or got is not True:
                    stats['failed_acquires'] += 1
                stats['max_depth'] = max(stats['max_depth'], max(m.o[k]['depth'] for k in 'AB'))
            else:
                o = m.o[n]
                if o['held'] and o['owner'] != t:
                    trace.append((step, op['op'], n, t, 'skipped: not the owner'))
                    continue
                exc = None
                try:
                    if op['op'] == 'release':
                        objs[n].release(force=op.get('force', False))
                    else:
                        # a real exit of the with-statement / of the innermost open acquire_ctx() of (object, thread)
                        boom = ValueError('body failed') if op.get('exc') else None
                        args = (type(boom), boom, None) if boom else (None, None, None)
                        if op['op'] == 'with_exit':
                            swallowed = objs[n].__exit__(*args)
                        else:
                            mine = [c for c in ctxs if c[0] == (n, t)]
                            if not mine:
                                trace.append((step, op['op'], n, t, 'skipped: no open acquire_ctx'))
                                continue
                            ctxs.remove(mine[-1])
                            try:
                                swallowed = mine[-1][1].__exit__(*args)
                            except ValueError as e:
                                swallowed = e is not boom
                        if boom is not None and swallowed:
                            viol.append(('exit-swallowed-exception', 'exit-swallowed-exception',
                                         f'op {step} {op}: the context manager swallowed the body\'s exception'))
                except Exception as e:  # noqa
                    exc = e
                faulted = any(not ok for _, ok in W.calls[ncalls0:])
                m.release(n, t, op.get('force', False))
                trace.append((step, 'release', n, t, op.get('force', False), repr(exc) if exc else None))
                if exc is not None and not faulted:
                    viol.append(('release-raised', 'release-raised:' + type(exc).__name__, f'op {step} {op}: raised {exc!r}'))
                if faulted:
                    stats['faults'] += 1
                    # statement is silent on a failing unlock; adopt the object's own report
                    if not objs[n].is_locked and m.o[n]['held']:
                        m.os = None if m.os == n else m.os
                        m.o[n].update(held=False, depth=0, owner=None)
            check_state(step, any(not ok for _, ok in W.calls[ncalls0:]))
            if viol:
                break
        stats['os_calls_in_ops'] = len(W.calls)
        # final: release everything (by the owners), then anybody must be able to acquire
        if not viol:
            for k in 'AB':
                if m.o[k]['held']:
                    W.actor = m.o[k]['owner']
                    objs[k].release(force=True)
                    m.release(k, W.actor, True)
            check_state('final-release', False)
            for k in 'AB':
                for t in ('T1', 'T2'):
                    W.actor = t
                    W.inject = set()
                    try:
                        ok = objs[k].acquire(blocking=False)
                    except Exception as e:  # noqa
                        ok = repr(e)
                    if ok is not True:
                        viol.append(('residue', 'residue:cannot-reacquire', f'after everything was released, {t} cannot acquire {k} '
                                     f'(non-blocking acquire gave {ok}); in-process owner={shim[k].owner} depth={shim[k].depth}'))
                    else:
                        objs[k].release()
    finally:
        for k, obj in list(locals().get('objs', {}).items()):
            try:
                W.actor = locals()['shim'][k].owner or 'T1'
                W.inject = set()
                obj.release(force=True)
            except Exception:  # noqa
                pass
        for fd in list(W.open_fds):
            try:
                real_os.close(fd)
            except OSError:
                pass
        F.threading, F.time, F.fcntl, F.os = saved
        if saved0 is not None:
            try:
                real_os.dup2(saved0, 0)
            finally:
                real_os.close(saved0)
    return {'violations': viol, 'trace': trace, 'stats': stats, 'os_calls': list(W.calls)}
