"""Interpreter for AsyncBackgroundBatcher / async_background_batcher programs
(C04, C09, C10, C11, C15) on one virtual-time loop.

case = {
  'cfg': {'mbs': int, 'mcb': int, 'bt': float, 'ret': float, 'form': 'class'|'deco'|'deco-opts'},
  'calls': [{'at': t, 'name': 'a', 'key': None|'K', 'cancel': t|None, 'timeout': tau|None}, ...],
  'behave': {key: kind},     kind in value|exc|excclass|omit|raise_before|raise_after|twice|unknown
  'order': 'fwd'|'rev'|'rot', 'bdur': float, 'idur': float,
  'mutate': None | {'at': t, 'mbs': int},
  'fresh': int              number of fresh distinct-key calls issued after everything else finished
}
Arguments are unique objects whose str() is the call's 'name' (so default keys
repeat while every work item stays identifiable).
"""
import asyncio as aio

from vf.sim.world import World, classify_stop

U = 1 / 64


class Arg:
    __slots__ = ('i', 'name')

    def __init__(self, i, name):
        self.i, self.name = i, name

    def __str__(self):
        return self.name

    def __repr__(self):
        return f'Arg({self.i},{self.name!r})'


class BatchBoom(Exception):
    pass


class YieldedError(Exception):
    pass


class YieldedStop(StopIteration):
    """A yielded Exception instance of the one built-in kind that a Future refuses to carry."""


RAISE_TYPES = {'BatchBoom': BatchBoom, 'KeyError': KeyError, 'ValueError': ValueError, 'RuntimeError': RuntimeError,
               'LookupError': LookupError, 'TimeoutError': TimeoutError, 'OSError': OSError}


def _boom(case, b, key):
    """The exception the batch function raises: any Exception type, the same object must reach the callers."""
    return RAISE_TYPES[case.get('raise_type', 'BatchBoom')]('batch %d failed at %s' % (b, key))


class Val:
    """A unique value object tagged with where it came from."""
    __slots__ = ('batch', 'key', 'n')

    def __init__(self, batch, key, n):
        self.batch, self.key, self.n = batch, key, n

    def __repr__(self):
        return f'Val(b{self.batch},{self.key!r},{self.n})'


def make_batcher(A, cfg, bf):
    kw = dict(max_batch_size=cfg['mbs'], max_concurrent_batches=cfg['mcb'],
              batch_timeout=cfg['bt'], retention_timeout=cfg['ret'])
    form = cfg.get('form', 'class')
    if form == 'class':
        return A.AsyncBackgroundBatcher(bf, **kw)
    if form == 'deco':
        return A.async_background_batcher(bf, **kw)
    return A.async_background_batcher(**kw)(bf)


def run(case, max_steps=30000):
    from aiuti import asyncio as A
    cfg = case['cfg']
    batches = []
    callers = []
    behave = case.get('behave') or {}
    state = {'running': 0, 'mbs_log': [(0.0, cfg['mbs'])]}
    # line tracing turns a busy loop in the code under test into a step-bound livelock verdict
    with World(max_steps=max_steps, trace=('aiuti/asyncio.py',), tie_seed=case.get('tie')) as w:
        sim = w.sim

        async def bf(items, which=0):
            items = list(items)
            b = len(batches)
            state['running'] += 1
            rec = {'id': b, 'start': sim.now, 'items': [(k, a.i if isinstance(a, Arg) else a) for k, a in items],
                   'conc': state['running'], 'yields': [], 'raised': None, 'end': None, 'batcher': which}
            batches.append(rec)
            try:
                if case['bdur']:
                    await aio.sleep(case['bdur'])
                order = list(items)
                if case['order'] == 'rev':
                    order.reverse()
                elif case['order'] == 'rot' and order:
                    order = order[1:] + order[:1]
                n = 0
                for key, arg in order:
                    kind = behave.get(key, 'value')
                    if case['idur']:
                        await aio.sleep(case['idur'])
                    if kind == 'omit':
                        continue
                    if kind == 'raise_before':
                        rec['raised'] = _boom(case, b, key)
                        raise rec['raised']
                    n += 1
                    if kind == 'exc':
                        obj = YieldedError(b, key)
                    elif kind == 'excstop':
                        # the built-in class itself in even batches, a subclass of it in odd ones
                        obj = YieldedStop(b, key) if b % 2 else StopIteration(b, key)
                    elif kind == 'excclass':
                        obj = type('ExcClass_%d_%s' % (b, n), (Exception,), {})
                    else:
                        obj = Val(b, key, n)
                    rec['yields'].append((key, obj, sim.now))
                    yield key, obj
                    if kind == 'twice':
                        if case.get('twice_gap'):
                            await aio.sleep(case['twice_gap'])     # the duplicate comes a while after the first yield
                        obj2 = Val(b, key, -n)
                        rec['yields'].append((key, obj2, sim.now))
                        yield key, obj2
                    elif kind == 'unknown':
                        obj3 = Val(b, '?unknown', n)
                        rec['yields'].append(('?unknown', obj3, sim.now))
                        yield '?unknown', obj3
                    elif kind == 'raise_after':
                        rec['raised'] = _boom(case, b, key)
                        raise rec['raised']
                rec['exhausted'] = True
            finally:
                state['running'] -= 1
                rec['end'] = sim.now

        async def main():
            loop = aio.get_running_loop()
            t0 = loop.time()
            batcher = make_batcher(A, cfg, bf)
            # an independent second batcher (own batch function) living in the same loop: nothing of one may
            # ever reach a caller of the other
            second = make_batcher(A, cfg, lambda items: bf(items, 1)) if case.get('two_batchers') else None
            tasks = []

            async def call(i, c, fresh=False):
                rec = callers[i]
                arg = Arg(i, c['name'])
                for _ in range(c.get('hops', 0)):      # the calling task reaches the batcher some loop iterations later
                    await aio.sleep(0)
                rec['arrived'] = sim.now
                rec['seq'] = sum(1 for r in callers if r['arrived'] is not None) - 1
                kw = {} if c['key'] is None else {'key': c['key']}
                target = second if (second is not None and c.get('b')) else batcher
                rec['batcher'] = 1 if target is second else 0
                try:
                    if c.get('timeout') is not None:
                        v = await aio.wait_for(target(arg, **kw), c['timeout'])
                    else:
                        v = await target(arg, **kw)
                    rec['outcome'] = ('ok', v)
                except aio.CancelledError as e:
                    if not sim.aborted:
                        rec['outcome'] = ('cancelled', e)
                    raise
                except BaseException as e:  # noqa
                    if sim.aborted:
                        raise
                    rec['outcome'] = ('exc', e)
                finally:
                    if not sim.aborted:
                        rec['done'] = sim.now
                # chained calls: the same task asks again for the same key the moment it has been answered
                # (no suspension in between), so the follow-up is causally *after* the answer
                prev = i
                for n in range(c.get('chain', 0)):
                    j = len(callers)
                    callers.append({'i': j, 'name': c['name'], 'key': rec['key'], 'arrived': None, 'seq': None, 'done': None,
                                    'outcome': None, 'cancel_req': None, 'spec': dict(c, chain=0), 'fresh': False,
                                    'after': prev})
                    await call(j, dict(c, chain=0, timeout=None, cancel=None))
                    prev = j

            def start(i, c):
                t = loop.create_task(call(i, c))
                w.keep.append(t)
                tasks.append(t)
                if c.get('cancel') is not None:
                    def do_cancel():
                        if not t.done():
                            callers[i]['cancel_req'] = sim.now
                            t.cancel()
                    loop.call_at(t0 + c['cancel'], do_cancel)

            for i, c in enumerate(case['calls']):
                callers.append({'i': i, 'name': c['name'], 'key': c['key'] if c['key'] is not None else c['name'],
                                'arrived': None, 'seq': None, 'done': None, 'outcome': None, 'cancel_req': None,
                                'spec': c, 'fresh': False})
            if case.get('mutate'):
                def mutate():
                    batcher.max_batch_size = case['mutate']['mbs']
                    state['mbs_log'].append((sim.now, case['mutate']['mbs']))
                if hasattr(batcher, 'max_batch_size'):
                    loop.call_at(t0 + case['mutate']['at'], mutate)
            for t_gc in case.get('gc_at') or ():
                # an explicit garbage collection in the middle of the program (the world keeps automatic
                # collection off): nothing the batcher still needs may be reachable only weakly
                import gc
                loop.call_at(t0 + t_gc, gc.collect)
            order = sorted(range(len(case['calls'])), key=lambda i: (case['calls'][i]['at'], i))
            for i in order:
                c = case['calls'][i]
                d = t0 + c['at'] - loop.time()
                if d > 0:
                    await aio.sleep(d)
                start(i, c)
            while any(not t.done() for t in tasks):
                await aio.wait([t for t in tasks if not t.done()])
            # fresh calls afterwards: the batcher keeps serving
            base = len(callers)
            ftasks = []
            for j in range(case.get('fresh', 0)):
                c = {'at': None, 'name': 'fresh%d' % j, 'key': None}
                callers.append({'i': base + j, 'name': c['name'], 'key': c['name'], 'arrived': None, 'seq': None,
                                'done': None, 'outcome': None, 'cancel_req': None, 'spec': c, 'fresh': True})
                ft = loop.create_task(call(base + j, c))
                w.keep.append(ft)
                ftasks.append(ft)
            if ftasks:
                await aio.wait(ftasks)
            await aio.sleep(cfg['ret'] + cfg['bt'] + 1)

        hz = 60.0 + sum(c['at'] for c in case['calls']) + 20 * (case['bdur'] + case['idur'] * 6 + cfg['bt'] + cfg['ret'])

        def watchdog():
            sim.sleep(hz)
            sim.request_abort('horizon')
        sim.spawn(watchdog, name='watchdog', daemon=True)
        w.run([lambda: aio.run(main())], names=['T0'])
        hist = {'stop': classify_stop(sim), 'batches': batches, 'callers': callers,
                'mbs_log': state['mbs_log'], 'thread_exc': sim.threads[1].exc if len(sim.threads) > 1 else None,
                'steps': sim.steps, 'now': sim.now, 'deadlock_report': sim.deadlock_report}
    return hist


def abbreviate(hist):
    return {
        'stop': hist['stop'], 'virtual_end': hist['now'],
        'batches': [{'id': b['id'], 'start': b['start'], 'end': b['end'], 'items': b['items'], 'conc': b['conc'],
                     'yields': [(k, repr(o), t) for k, o, t in b['yields']], 'raised': repr(b['raised'])}
                    for b in hist['batches']],
        'callers': [{'i': c['i'], 'key': c['key'], 'arrived': c['arrived'], 'done': c['done'],
                     'outcome': None if c['outcome'] is None else (c['outcome'][0], repr(c['outcome'][1])),
                     'cancel_req': c['cancel_req']} for c in hist['callers']],
    }
