"""FileLock under the simulation kernel: threads x objects on one real lock file (C02).

case = {'objs': [{'reentrant': bool, 'timeout': -1|0.1}, ...]  (1-2 FileLock objects, one path),
        'threads': [[{'obj': i, 'how': 'acquire'|'nb'|'timed'|'ctx'|'ctx-timed'|'with', 'nest': 1|2, 'cs': d}, ...], ...],
        'sched': {...}}
The critical section is harness-owned: occupancy++ / scheduling points / virtual sleep / occupancy--.
flock is the real one (non-blocking, waiting is cooperative), on real descriptors.
"""
import os
import tempfile

from vf.sim.world import World, classify_stop

TRACE = ('aiuti/filelock.py',)
_DIRS = {}


def _lockdir():
    import atexit
    import shutil
    pid = os.getpid()
    if pid not in _DIRS:
        d = tempfile.mkdtemp(prefix='vf_flt_')
        _DIRS[pid] = d
        atexit.register(shutil.rmtree, d, True)
    return _DIRS[pid]


def run(case, max_steps=100000):
    import importlib
    F = importlib.import_module('aiuti.filelock')
    path = os.path.join(_lockdir(), 'lock')
    events = []       # (kind, thread, round, step, now, occupancy)
    state = {'occ': 0, 'max_occ': 0}
    attempts = []     # (thread, round, start_step, end_step, ok)
    with World(schedule=case['sched'], trace=TRACE, modules=(F,), max_steps=max_steps) as w:
        sim = w.sim
        def spelled(how):
            # the same lock file named in different ways: str, pathlib.Path, or an os.PathLike whose str() is not
            # its path (os.DirEntry)
            if how == 'pathlib':
                import pathlib
                return pathlib.Path(path)
            if how == 'direntry':
                open(path, 'a').close()
                with os.scandir(os.path.dirname(path)) as it:
                    return next(e for e in it if e.name == os.path.basename(path))
            return path
        objs = [F.FileLock(spelled(o.get('path', 'str')), timeout=o['timeout'], reentrant=o['reentrant']) for o in case['objs']]

        def critical(i, r, d):
            state['occ'] += 1
            state['max_occ'] = max(state['max_occ'], state['occ'])
            events.append(('enter', i, r, sim.steps, sim.now, state['occ']))
            sim.yield_point(('cs',))
            if d:
                sim.sleep(d)
            sim.yield_point(('cs',))
            state['occ'] -= 1
            events.append(('exit', i, r, sim.steps, sim.now, state['occ']))

        def make_thread(i, rounds):
            def body():
                for r, rd in enumerate(rounds):
                    o = objs[rd['obj'] % len(objs)]
                    spec = case['objs'][rd['obj'] % len(objs)]
                    nest = rd.get('nest', 1) if spec['reentrant'] else 1
                    how = rd['how']
                    s0 = sim.steps
                    if how in ('with',):
                        try:
                            with o:
                                attempts.append((i, r, s0, sim.steps, True))
                                if nest == 2:
                                    with o:
                                        critical(i, r, rd['cs'])
                                else:
                                    critical(i, r, rd['cs'])
                        except TimeoutError:
                            attempts.append((i, r, s0, sim.steps, False))
                    elif how in ('ctx', 'ctx-timed'):
                        kw = {} if how == 'ctx' else {'timeout': 0.1}
                        cm = o.acquire_ctx(**kw)      # keep referenced until exited
                        w.keep.append(cm)
                        try:
                            with cm:
                                attempts.append((i, r, s0, sim.steps, True))
                                if nest == 2:
                                    cm2 = o.acquire_ctx(**kw)
                                    w.keep.append(cm2)
                                    with cm2:
                                        critical(i, r, rd['cs'])
                                else:
                                    critical(i, r, rd['cs'])
                        except TimeoutError:
                            attempts.append((i, r, s0, sim.steps, False))
                    else:
                        if how == 'acquire':
                            ok = o.acquire()
                        elif how == 'nb':
                            ok = o.acquire(blocking=False)
                        else:
                            ok = o.acquire(timeout=0.1)
                        attempts.append((i, r, s0, sim.steps, bool(ok)))
                        if ok:
                            if nest == 2 and o.acquire(blocking=False):
                                critical(i, r, rd['cs'])
                                o.release()
                            else:
                                critical(i, r, rd['cs'])
                            o.release()
            return body

        hz = 50 + 3 * sum(rd['cs'] + 0.2 for t in case['threads'] for rd in t)

        def watchdog():
            sim.sleep(hz)
            sim.request_abort('horizon')
        sim.spawn(watchdog, name='watchdog', daemon=True)
        w.run([make_thread(i, t) for i, t in enumerate(case['threads'])],
              names=['T%d' % i for i in range(len(case['threads']))])
        still = [k for k, o in enumerate(objs) if o.is_locked]
        hist = {'stop': classify_stop(sim), 'events': events, 'attempts': attempts, 'max_occ': state['max_occ'],
                'thread_excs': [(t.name, t.exc) for t in sim.threads if t.exc is not None],
                'still_locked': still, 'open_fds': len(w.ledger.open_fds),
                'steps': sim.steps, 'decisions': sim.decisions, 'forced': w.chooser.forced, 'now': sim.now,
                'deadlock_report': sim.deadlock_report, 'lines': sim.seen_lines}
        sim.passthrough = True
        for o in objs:
            try:
                o.release(force=True)
            except Exception:  # noqa
                pass
    return hist


def abbreviate(hist):
    return {'stop': hist['stop'], 'steps': hist['steps'], 'max_occupancy': hist['max_occ'],
            'sections': [(e[0], 'T%d' % e[1], e[2], e[3], e[5]) for e in hist['events']][:24],
            'attempts': hist['attempts'][:16],
            'blocked': hist['deadlock_report'] if hist['stop'] != 'finished' else None}
