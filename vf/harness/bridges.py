"""Interpreter for to_async_iter / to_sync_iter programs (C16).

case = {'dir': 's2a'|'a2s',
        'src': {'kind': 'list'|'range'|'tuple'|'gen'|'iter'|'agen', 'elems': [indices into ELEMS], 'fail_at': None|i, 'delay': d},
        'cdelay': consumer delay per element, 'loop': 'none'|'fresh' (to_sync_iter only), 'sched': {...}}
"""
import asyncio as aio

from vf.sim.world import World, classify_stop

TRACE = ('aiuti/asyncio.py',)
class AlwaysEqual:
    """Compares equal to everything (like unittest.mock.ANY): only identity tells it apart."""

    def __eq__(self, other):
        return True

    def __ne__(self, other):
        return False

    __hash__ = None

    def __repr__(self):
        return 'ANY'


class NeverComparable:
    """An element whose == is not a plain bool (array-like objects)."""

    def __eq__(self, other):
        raise ValueError('the truth value of this comparison is ambiguous')

    __hash__ = None

    def __repr__(self):
        return 'ARRAYLIKE'


ELEMS = [0, None, '', False, 1, 1, 'x', (), 0.0, AlwaysEqual(), NeverComparable(),
         # elements that are themselves exception objects / classes (e.g. results gathered with return_exceptions=True)
         ValueError('payload'), StopIteration('payload'), aio.CancelledError('payload'), KeyError, StopAsyncIteration('payload')]
TICK = 1 / 8


class SrcBoom(Exception):
    pass


class SrcBaseBoom(BaseException):
    pass


class PlainIter:
    def __init__(self, g):
        self.g = g

    def __iter__(self):
        return self

    def __next__(self):
        return next(self.g)


def run(case, max_steps=60000):
    from aiuti import asyncio as A
    src = case['src']
    elems = [ELEMS[i] for i in src['elems']] if src['kind'] != 'range' else list(range(len(src['elems'])))
    n = len(elems)
    f = src.get('fail_at')
    d = src.get('delay', 0)
    fk = src.get('fail_kind', 'exc')
    boom = aio.CancelledError('source cancelled') if fk == 'cancel' else SrcBaseBoom('source failed') if fk == 'base' \
        else SrcBoom('source failed')
    out = {'got': [], 'exc': None, 'ticks': [], 'finished_at': None, 'boom': boom,
           'produced': 0, 'started': None, 'got2': [], 'exc2': None}
    pair = bool(case.get('pair'))         # a second bridge (over the reversed elements, never failing) alive at the same time
    elems2 = list(reversed(elems))
    with World(schedule=case['sched'], trace=TRACE, modules=(A,), max_steps=max_steps) as w:
        sim = w.sim

        def gen():
            for i, e in enumerate(elems):
                if i == f:
                    raise out['boom']
                if d:
                    sim.sleep(d)
                out['produced'] += 1
                yield e
            if f == n:
                raise out['boom']

        async def agen():
            for i, e in enumerate(elems):
                if i == f:
                    raise out['boom']
                if d:
                    await aio.sleep(d)
                out['produced'] += 1
                yield e
            if f == n:
                raise out['boom']

        def gen2():
            for e in elems2:
                if d:
                    sim.sleep(d)
                yield e

        async def agen2():
            for e in elems2:
                if d:
                    await aio.sleep(d)
                yield e

        if case['dir'] == 's2a':
            kind = src['kind']
            good = elems if f is None else elems

            def make_source():
                if kind == 'list':
                    return list(elems)
                if kind == 'tuple':
                    return tuple(elems)
                if kind == 'range':
                    return range(n)
                g = gen()
                w.keep.append(g)
                return g if kind == 'gen' else PlainIter(g)

            async def main():
                async def ticker():
                    while True:
                        out['ticks'].append(sim.now)
                        await aio.sleep(TICK)
                tk = aio.ensure_future(ticker())
                out['started'] = sim.now

                async def second():
                    g2 = gen2()
                    w.keep.append(g2)
                    try:
                        async for x in A.to_async_iter(g2):
                            out['got2'].append(x)
                            if case['cdelay']:
                                await aio.sleep(case['cdelay'])
                    except BaseException as e:  # noqa
                        if sim.aborted:
                            raise
                        out['exc2'] = e
                t2 = aio.ensure_future(second()) if pair else None
                try:
                    async for x in A.to_async_iter(make_source()):
                        out['got'].append(x)
                        if case['cdelay']:
                            await aio.sleep(case['cdelay'])
                except BaseException as e:  # noqa
                    if sim.aborted:
                        raise
                    out['exc'] = e
                out['finished_at'] = sim.now
                if t2 is not None:
                    await t2
                out['workers_alive_at_finish'] = sum(len(e.busy()) for e in sim.executors)
                tk.cancel()

            def thread():
                aio.run(main())
        else:
            def thread():
                loop = w.new_loop() if case.get('loop') == 'fresh' else None
                out['started'] = sim.now
                ag = agen()
                w.keep.append(ag)
                it2 = None
                if pair:
                    ag2 = agen2()
                    w.keep.append(ag2)
                    it2 = iter(A.to_sync_iter(ag2))     # default loop for the second bridge
                    w.keep.append(it2)
                try:
                    it = A.to_sync_iter(ag) if loop is None else A.to_sync_iter(ag, loop=loop)
                    for x in it:
                        out['got'].append(x)
                        if it2 is not None:
                            # lock-step (like zip): one element of the second bridge per element of the first
                            try:
                                out['got2'].append(next(it2))
                            except StopIteration:
                                it2 = None
                            except BaseException as e:  # noqa
                                if sim.aborted:
                                    raise
                                out['exc2'] = e
                                it2 = None
                        if case['cdelay']:
                            sim.sleep(case['cdelay'])
                except BaseException as e:  # noqa
                    if sim.aborted:
                        raise
                    out['exc'] = e
                out['finished_at'] = sim.now
                if it2 is not None:
                    try:
                        for y in it2:
                            out['got2'].append(y)
                    except BaseException as e:  # noqa
                        if sim.aborted:
                            raise
                        out['exc2'] = e
                out['workers_alive_at_finish'] = sum(len(e.busy()) for e in sim.executors)

        hz = 60 + 4 * (n + 1) * (d + case['cdelay'] + TICK)

        def watchdog():
            sim.sleep(hz)
            sim.request_abort('horizon')
        sim.spawn(watchdog, name='watchdog', daemon=True)
        w.run([thread], names=['consumer'])
        hist = dict(out)
        hist.update({'stop': classify_stop(sim), 'elems': elems, 'elems2': elems2 if pair else None,
                     'thread_excs': [(t.name, t.exc) for t in sim.threads if t.exc is not None],
                     'workers_alive_at_end': sum(len(e.busy()) for e in sim.executors),
                     'nworkers': sum(len(e.workers) for e in sim.executors),
                     'steps': sim.steps, 'decisions': sim.decisions, 'now': sim.now,
                     'deadlock_report': sim.deadlock_report, 'lines': sim.seen_lines})
    return hist


def abbreviate(hist):
    return {'stop': hist['stop'], 'source': repr(hist['elems']), 'consumed': repr(hist['got']), 'exc': repr(hist['exc']),
            'second_bridge': None if hist.get('elems2') is None else {'consumed': repr(hist['got2']), 'exc': repr(hist['exc2'])},
            'ticks': hist['ticks'][:12], 'finished_at': hist['finished_at'], 'helper_threads': hist['nworkers'],
            'alive_at_finish': hist.get('workers_alive_at_finish'),
            'blocked': hist['deadlock_report'] if hist['stop'] != 'finished' else None}
