"""Interpreter for buffer_until_timeout / BufferAsyncCalls programs (C03, C07, C08, C15).

case = {
  'T': timeout, 'form': 'direct'|'deco-opts', 'fdur': seconds, 'fails': [invocation numbers (1-based) that raise],
  'prog': [ {'at': t, 'op': 'call', 'x': int}
            {'at': t, 'op': 'await', 'x': int, 'delay': d, 'fail': bool}
            {'at': t, 'op': 'map',  'kind': 'list'|'range'|'tuple'|'gen'|'iter', 'xs': [ints], 'fail_at': None|i, 'delay': d}
            {'at': t, 'op': 'amap', 'xs': [ints], 'fail_at': None|i, 'delay': d}
            {'at': t, 'op': 'wait', 'cancel': bool} ],      any op may carry 'iters': n = n extra loop iterations before it
  'foreign': [ [ {'gap': g, 'op': 'call'|'map'|'await'|'wait', ...}, ... ], ... ],    one list per foreign thread
  'shutdown': None | t        the owner's main returns at t (asyncio.run then cancels the background task)
  'other': None | {'at': t, 'fdur': d, 'x': v}    a second, independent buffer on the owner's loop (its own function lasting d)
                                                  receives one plain call at t
  'sched': {...}
}
Values are unique ints unless deliberately duplicated.  'range' maps use xs = consecutive ints.
"""
import asyncio as aio

from vf.sim.world import World, classify_stop

TRACE = ('aiuti/asyncio.py',)


class ProducerBoom(Exception):
    pass


class FuncBoom(Exception):
    pass


def _producer_failure(op, where):
    """What a failing producer raises: an ordinary exception, or a cancellation that is *not* aimed at the
    buffer's own task (a producer awaiting something that somebody else cancelled)."""
    if op.get('fail_kind') == 'cancel':
        return aio.CancelledError('producer cancelled at %r' % (where,))
    if op.get('fail_kind') == 'base':
        return ProducerBaseBoom(where)
    return ProducerBoom(where)


class ProducerBaseBoom(BaseException):
    pass


class PlainIter:
    """An iterator that is not a generator."""

    def __init__(self, g):
        self.g = g

    def __iter__(self):
        return self

    def __next__(self):
        return next(self.g)


class Tag:
    """A hashable argument without an ordering."""
    __slots__ = ('x',)

    def __init__(self, x):
        self.x = x

    def __repr__(self):
        return 'Tag(%d)' % self.x


class Wild(Tag):
    """A hashable argument that compares equal to everything (unittest.mock.ANY-like)."""
    __slots__ = ()

    def __eq__(self, other):
        return True

    def __ne__(self, other):
        return False

    def __hash__(self):
        return hash(('wild', self.x))

    def __repr__(self):
        return 'Wild(%d)' % self.x


_TAGS = {}


def enc(case, x):
    """The object actually submitted for the program value x: with 'mixed_args' the arguments are of mixed, mutually
    unorderable types (int, str, tuple, plain object); otherwise the int itself."""
    if not case.get('mixed_args'):
        return x
    k = x % 5
    return x if k == 0 else 'v%d' % x if k == 1 else (x,) if k == 2 else _TAGS.setdefault(x, Tag(x)) if k == 3 \
        else _TAGS.setdefault(x, Wild(x))


def dec(v):
    return v if isinstance(v, int) else int(v[1:]) if isinstance(v, str) else v[0] if isinstance(v, tuple) else v.x


class ReIterable:
    """An iterable that is not an iterator (its __iter__ is a generator function): it may fail part-way."""

    def __init__(self, make):
        self.make = make

    def __iter__(self):
        return self.make()


class BadCloseIter(PlainIter):
    """An iterator (not a generator) that also has a close() method - which fails (a cursor used from the wrong thread)."""

    def close(self):
        raise ProducerBoom('close() failed')


def deliverable(op):
    """Elements a submission must get delivered (those produced before its producer failed)."""
    if op['op'] == 'call':
        return [op['x']]
    if op['op'] == 'await':
        return [] if op.get('fail') else [op['x']]
    if op['op'] in ('map', 'amap'):
        xs = list(op['xs'])
        f = op.get('fail_at')
        return xs if f is None else xs[:f]
    return []


def all_values(op):
    if op['op'] == 'call' or op['op'] == 'await':
        return [op['x']]
    if op['op'] in ('map', 'amap'):
        return list(op['xs'])
    return []


def run(case, max_steps=120000):
    from aiuti import asyncio as A
    T = case['T']
    fails = set(case.get('fails') or ())
    calls = []
    subs = []      # {'thread','op','t','step','values','deliver'}
    waits = []     # {'thread','cancel','t_call','step_call','t_ret','need','missing'}
    state = {'running': 0, 'n': 0, 'ready': False, 'foreign_done': 0, 'buf': None, 'main_returned': None,
             'driver_exc': None}
    nforeign = len(case.get('foreign') or ())
    with World(schedule=case.get('sched'), trace=TRACE, modules=(A,), max_steps=max_steps, tie_seed=case.get('tie')) as w:
        sim = w.sim

        async def func(xs):
            state['n'] += 1
            me = state['n']
            state['running'] += 1
            rec = {'i': me, 'start': sim.now, 'start_step': sim.steps, 'args': sorted(dec(v) for v in xs), 'ok': False,
                   'overlap': state['running'] > 1, 'end': None, 'is_set': type(xs) is set}
            calls.append(rec)
            try:
                if case['fdur']:
                    await aio.sleep(case['fdur'])
                if me in fails:
                    # the wrapped function fails: with an ordinary exception, or with a cancellation that is not
                    # aimed at the buffer's task (it awaited something that somebody else cancelled)
                    kind = case.get('func_fail_kind', 'exc')
                    raise aio.CancelledError('function cancelled') if kind == 'cancel' else \
                        ProducerBaseBoom(me) if kind == 'base' else FuncBoom(me)
                rec['ok'] = True
            finally:
                state['running'] -= 1
                if not sim.aborted:
                    rec['end'] = sim.now
                    rec['end_step'] = sim.steps

        other_calls = []

        async def func2(xs):
            rec = {'start': sim.now, 'args': sorted(xs), 'end': None}
            other_calls.append(rec)
            if case['other']['fdur']:
                await aio.sleep(case['other']['fdur'])
            if not sim.aborted:
                rec['end'] = sim.now

        if case.get('func_attrs'):
            # the application keeps attributes of its own on the function it hands over; their names mean nothing to
            # the wrapper and must not influence it
            func.timeout = 999.0
            func.note = 'application data'

        def delivered_now():
            got = set()
            for r in calls:
                if r['ok'] and r['end'] is not None:
                    got.update(r['args'])
            return got

        def submit(buf, op, thread):
            d = op.get('delay', 0)
            rec = {'thread': thread, 'op': op['op'], 't': sim.now, 'step': sim.steps,
                   'values': all_values(op), 'deliver': deliverable(op), 'kind': op.get('kind')}
            subs.append(rec)
            E = lambda v: enc(case, v)      # noqa: E731
            if op['op'] == 'call':
                buf(E(op['x']))
            elif op['op'] == 'await':
                async def aw(v=op['x'], f=op.get('fail'), d=d, op=op):
                    if d:
                        await aio.sleep(d)
                    if f:
                        raise _producer_failure(op, v)
                    return E(v)
                c = aw()
                w.keep.append(c)
                buf.await_(c)
            elif op['op'] == 'map':
                xs, f, kind = list(op['xs']), op.get('fail_at'), op['kind']
                if kind == 'list':
                    buf.map([E(v) for v in rec['deliver']])
                elif kind == 'tuple':
                    buf.map(tuple(E(v) for v in rec['deliver']))
                elif kind == 'range':
                    buf.map(range(xs[0], xs[0] + len(rec['deliver'])) if rec['deliver'] else range(0))
                else:
                    def gen(p=xs, f=f, d=d, op=op):
                        for i, v in enumerate(p):
                            if i == f:
                                raise ProducerBoom(i)      # a sync iterator fails with an ordinary exception
                            if d:
                                sim.sleep(d)
                            yield E(v)
                        if f == len(p):
                            raise ProducerBoom(f)
                    if kind == 'reiter':
                        buf.map(ReIterable(gen))
                    else:
                        g = gen()
                        w.keep.append(g)
                        buf.map(g if kind == 'gen' else BadCloseIter(g) if kind == 'iter-badclose' else PlainIter(g))
            elif op['op'] == 'amap':
                async def agen(p=list(op['xs']), f=op.get('fail_at'), d=d, op=op):
                    for i, v in enumerate(p):
                        if i == f:
                            raise _producer_failure(op, i)
                        if d:
                            await aio.sleep(d)
                        yield E(v)
                    if f == len(p):
                        raise _producer_failure(op, f)
                g = agen()
                w.keep.append(g)
                buf.amap(g)

        def need_for(thread):
            need = []
            for s in subs:
                if s['thread'] == thread:
                    need.extend(s['deliver'])
            return need

        async def do_wait(buf, cancel, thread, foreign=False):
            rec = {'thread': thread, 'cancel': cancel, 't_call': sim.now, 'step_call': sim.steps,
                   't_ret': None, 'need': need_for(thread), 'missing': None, 'exc': None}
            waits.append(rec)
            try:
                if foreign:
                    await buf.wait_from_anywhere(cancel=cancel)
                else:
                    await buf.wait(cancel=cancel)
            except aio.CancelledError:
                if not sim.aborted:
                    rec['exc'] = 'cancelled'
                raise
            except BaseException as e:  # noqa
                if sim.aborted or isinstance(e, GeneratorExit):   # unwinding of an aborted run is not an observation
                    raise
                rec['exc'] = repr(e)
                return
            rec['t_ret'] = sim.now
            got = delivered_now()
            rec['missing'] = sorted(set(rec['need']) - got)

        async def run_ops(buf, loop, t0, ops, pend):
            for op in sorted(ops, key=lambda o: o['at']):
                d = t0 + op['at'] - loop.time()
                if d > 0:
                    await aio.sleep(d)
                for _ in range(op.get('iters', 0)):      # position inside the instant, in loop iterations
                    await aio.sleep(0)
                if op['op'] == 'wait' and op.get('inline'):
                    # the submitting coroutine itself calls wait() in the same step (buf(x); await buf.wait()),
                    # so nothing - not even the scheduled queue put - runs in between
                    await do_wait(buf, op['cancel'], 'owner')
                elif op['op'] == 'wait':
                    async def later(op=op):
                        if op.get('sleep'):          # the waiting task is started now but calls wait() a while later
                            await aio.sleep(op['sleep'])
                        await do_wait(buf, op['cancel'], 'owner')
                    t = loop.create_task(later())
                    w.keep.append(t)
                    pend.append(t)
                else:
                    submit(buf, op, 'owner')

        async def driver(buf, loop, t0):
            pend = []
            second = None
            if case.get('prog2'):
                # a second, independent sequence of operations on the same loop (another coroutine of the application)
                second = loop.create_task(run_ops(buf, loop, t0, case['prog2'], pend))
                w.keep.append(second)
            await run_ops(buf, loop, t0, case['prog'], pend)
            if second is not None:
                await second
            for t in pend:
                await t
            # One long sleep, not a poll: periodic wake-ups of the owner loop would mask a
            # hand-off from a foreign thread that fails to wake the loop.
            nf = len(fails)
            quiet = (nf + 3) * (T + case['fdur']) + 4 * T + 2
            if case.get('other'):
                quiet += case['other']['at'] + case['other']['fdur'] + T
            fspan = max([sum(o.get('gap', 0) + o.get('delay', 0) for o in p) for p in (case.get('foreign') or ())] + [0])
            await aio.sleep(fspan + (quiet if nforeign else 0) + quiet)
            while state['foreign_done'] < nforeign:
                await aio.sleep(1 / 8)

        async def main():
            loop = aio.get_running_loop()
            if case.get('form') == 'deco-opts':
                buf = A.buffer_until_timeout(timeout=T)(func)
            else:
                buf = A.buffer_until_timeout(func, timeout=T)
            state['buf'] = buf
            state['loop'] = loop
            if case.get('other'):
                buf2 = A.buffer_until_timeout(func2, timeout=T)
                w.keep.append(buf2)
                loop.call_later(case['other']['at'], buf2, case['other']['x'])
            state['ready'] = True
            t0 = loop.time()
            dt = loop.create_task(driver(buf, loop, t0))
            w.keep.append(dt)
            if case.get('shutdown') is None:
                await dt
            else:
                await aio.sleep(case['shutdown'])
                for _ in range(case.get('shutdown_iters', 0)):    # position of the return inside that instant
                    await aio.sleep(0)
            state['main_returned'] = (sim.now, sim.steps)

        def owner():
            aio.run(main())
            state['owner_finished'] = (sim.now, sim.steps)

        def make_foreign(i, prog):
            async def fmain():
                buf = state['buf']
                name = 'F%d' % i
                for op in prog:
                    if op.get('gap'):
                        await aio.sleep(op['gap'])
                    if op['op'] == 'wait':
                        await do_wait(buf, op['cancel'], name, foreign=True)
                    else:
                        submit(buf, op, name)

            def run_f():
                sim.block_until(lambda: state['ready'], what='buffer-ready')
                mode = case.get('foreign_mode', 'loop')
                try:
                    if mode == 'loop':
                        aio.run(fmain())
                    else:
                        # a plain thread without a running loop; 'plain-setloop': it has made the buffer's loop its
                        # *current* loop (set_event_loop) although that loop runs in the owner's thread
                        if mode == 'plain-setloop':
                            aio.set_event_loop(state['loop'])
                        try:
                            for op in prog:
                                if op.get('gap'):
                                    sim.sleep(op['gap'])
                                if op['op'] in ('call', 'map'):
                                    submit(state['buf'], op, 'F%d' % i)
                        finally:
                            if mode == 'plain-setloop':
                                aio.set_event_loop(None)
                finally:
                    state['foreign_done'] += 1
            return run_f

        hz = 100.0 + (3 * (case['other']['at'] + case['other']['fdur']) if case.get('other') else 0) + 40 * (T + case['fdur']) + sum(o['at'] + o.get('sleep', 0) for o in case['prog'] + (case.get('prog2') or [])) + (case.get('shutdown') or 0) \
            + sum(o.get('gap', 0) for p in (case.get('foreign') or ()) for o in p)

        def watchdog():
            sim.sleep(hz)
            sim.request_abort('horizon')
        sim.spawn(watchdog, name='watchdog', daemon=True)
        fns = [owner] + [make_foreign(i, p) for i, p in enumerate(case.get('foreign') or ())]
        w.run(fns, names=['owner'] + ['F%d' % i for i in range(nforeign)])
        hist = {'stop': classify_stop(sim), 'calls': calls, 'subs': subs, 'waits': waits, 'other_calls': other_calls,
                'main_returned': state['main_returned'], 'owner_finished': state.get('owner_finished'),
                'thread_excs': [(t.name, t.exc) for t in sim.threads if t.exc is not None],
                'steps': sim.steps, 'decisions': sim.decisions, 'forced': w.chooser.forced, 'now': sim.now,
                'deadlock_report': sim.deadlock_report, 'lines': sim.seen_lines,
                'pool_threads_alive': sum(len(e.busy()) for e in sim.executors)}
    return hist


def abbreviate(hist):
    return {'stop': hist['stop'], 'virtual_end': hist['now'], 'steps': hist['steps'],
            'calls': [{'i': c['i'], 'start': c['start'], 'end': c['end'], 'args': c['args'], 'ok': c['ok']}
                      for c in hist['calls']],
            'submissions': [{'thread': s['thread'], 'op': s['op'], 't': s['t'], 'values': s['values'],
                             'deliver': s['deliver']} for s in hist['subs']],
            'waits': [{k: w_[k] for k in ('thread', 'cancel', 't_call', 't_ret', 'missing', 'exc')} for w_ in hist['waits']],
            'main_returned': hist['main_returned'], 'owner_finished': hist['owner_finished'],
            'other_buffer_calls': hist.get('other_calls') or None,
            'blocked': hist['deadlock_report'] if hist['stop'] != 'finished' else None}
