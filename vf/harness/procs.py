"""Real OS processes against the real FileLock (no simulation): C02 contention, C13 crash points."""
import json
import os
import signal
import sys
import tempfile
import time

HANG_GUARD_S = 15.0     # wall-clock hang guard only; contenders need milliseconds


class ScenarioHang(Exception):
    pass


def _fresh_dir():
    return tempfile.mkdtemp(prefix='vf_flp_')


# ------------------------------------------------------------------ C02 ----
def contender(path, rounds, idx, out_path, hows, until=None, timed=(0.05, 0.002)):
    """Runs in a forked child: acquire / critical section / release rounds.  With `until` (a path) the rounds go on
    until that file exists (the victim has been reaped) and `rounds` more are done afterwards."""
    from aiuti.filelock import FileLock
    lock = FileLock(path)
    marker = path + '.marker'
    counter = path + '.counter'
    done = 0
    clashes = 0
    inconsistent = 0
    waited = 0.0
    keep = []
    r = -1
    left = rounds
    interrupts = 0
    t_end = time.monotonic() + HANG_GUARD_S
    while left > 0:
        r += 1
        if until is None or os.path.exists(until) or time.monotonic() > t_end:
            left -= 1
        how = hows[(idx + r) % len(hows)]
        if until is not None and r % 5 == 4 and not os.path.exists(until):
            how = 'interrupted'     # only while the victim is around; 5 is coprime to len(hows): every kind still occurs
        t0 = time.monotonic()
        cm = None
        if how == 'acquire':
            ok = lock.acquire()
        elif how == 'interrupted':
            # a blocking acquire cut short by a raising signal handler (Ctrl-C, a watchdog alarm) while it waits for
            # the holder, then the ordinary retry on the same object. Injected at the flock layer so that it is
            # deterministic: the exception leaves flock() only when flock() would have had to wait.
            was = _interrupted_acquire(lock)
            if was:
                interrupts += 1
                if lock.is_locked:  # nothing was acquired, yet this object says it holds the lock
                    inconsistent += 1
                ok = lock.acquire()
            else:
                ok = True
        elif how == 'nb':
            ok = lock.acquire(blocking=False)
        elif how == 'timed':
            ok = lock.acquire(timeout=timed[0], poll_interval=timed[1])
        elif how == 'timed-long':
            ok = lock.acquire(timeout=2.0, poll_interval=0.005)      # polls through a holder's whole tenure, then wins
        elif how == 'with':
            lock.__enter__()
            ok = True
        else:
            cm = lock.acquire_ctx(poll_interval=0.002)
            keep.append(cm)
            cm.__enter__()
            ok = True
        waited += time.monotonic() - t0
        if not ok:
            if lock.is_locked:      # the attempt reported failure, yet this object says it holds the lock
                inconsistent += 1
            continue
        # ---- critical section: O_EXCL marker + non-atomic read-modify-write of a counter file
        try:
            fd = os.open(marker, os.O_CREAT | os.O_EXCL | os.O_WRONLY)
            os.close(fd)
        except FileExistsError:
            clashes += 1
        try:
            with open(counter) as f:
                v = int(f.read() or 0)
        except (FileNotFoundError, ValueError):
            v = 0
        with open(counter, 'w') as f:
            f.write(str(v + 1))
        try:
            os.unlink(marker)
        except FileNotFoundError:
            clashes += 1
        done += 1
        if cm is not None:
            cm.__exit__(None, None, None)
        elif how == 'with':
            lock.__exit__(None, None, None)
        else:
            lock.release()
        if lock.is_locked:          # (this process never nests) released, yet the object still says it holds the lock
            inconsistent += 1
    with open(out_path, 'w') as f:
        json.dump({'done': done, 'clashes': clashes, 'waited': waited, 'inconsistent': inconsistent, 'rounds': r + 1,
                   'interrupts': interrupts}, f)


def _interrupted_acquire(lock):
    """lock.acquire() during which a blocking flock() that would have to wait is left by a KeyboardInterrupt instead
    (what a raising signal handler does to a waiting flock(): no lock taken, a non-OSError propagates).
    -> True when the attempt was interrupted (nothing acquired), False when it acquired without waiting."""
    import aiuti.filelock as F
    import logging
    real = F.fcntl
    lg = logging.getLogger(F.__name__)
    if not lg.handlers:
        lg.addHandler(logging.NullHandler())     # acquire() logs the traceback of whatever passes through it

    class Proxy:
        def __getattr__(self, n):
            return getattr(real, n)

        def flock(self, fd, flags):
            if flags & real.LOCK_EX and not flags & real.LOCK_NB:
                try:
                    return real.flock(fd, flags | real.LOCK_NB)
                except BlockingIOError:
                    raise KeyboardInterrupt from None
            return real.flock(fd, flags)
    F.fcntl = Proxy()
    try:
        lock.acquire()
        return False
    except KeyboardInterrupt:
        return True
    finally:
        F.fcntl = real


def run_contention(nprocs, rounds, hows):
    """-> dict(total_done, counter, clashes, per_process)"""
    d = _fresh_dir()
    path = os.path.join(d, 'lock')
    pids = []
    for i in range(nprocs):
        out = os.path.join(d, 'out%d.json' % i)
        pid = os.fork()
        if pid == 0:
            code = 0
            try:
                contender(path, rounds, i, out, hows)
            except BaseException:  # noqa
                import traceback
                traceback.print_exc()
                code = 3
            os._exit(code)
        pids.append((pid, out))
    res = []
    deadline = time.monotonic() + 120
    status = []
    for pid, out in pids:
        while True:
            p, st = os.waitpid(pid, os.WNOHANG)
            if p:
                status.append(st)
                break
            if time.monotonic() > deadline:
                os.kill(pid, signal.SIGKILL)
                os.waitpid(pid, 0)
                status.append('timeout')
                break
            time.sleep(0.002)
        if os.path.exists(out):
            res.append(json.load(open(out)))
        else:
            res.append(None)
    try:
        counter = int(open(path + '.counter').read() or 0)
    except (FileNotFoundError, ValueError):
        counter = 0
    import shutil
    shutil.rmtree(d, ignore_errors=True)
    return {'per_process': res, 'status': status, 'counter': counter,
            'total_done': sum(r['done'] for r in res if r), 'clashes': sum(r['clashes'] for r in res if r),
            'waited': sum(r['waited'] for r in res if r)}


# ------------------------------------------------------------------ C13 ----
SCENARIOS = ['blocking', 'timed', 'with', 'ctx', 'nested', 'contended', 'helper', 'helper-lowfd', 'failing',
             'forked-blocking', 'forked-timed', 'forked-nested']
# 'forked-X': a supervisor process creates the FileLock object, uses it once (one successful and one failed attempt), then
# fork()s the victim, which runs scenario X on the inherited object; the supervisor stays alive during the probe


def _mklock(name, path, F):
    if name == 'timed':
        return F.FileLock(path, timeout=0.05)
    if name == 'nested':
        return F.FileLock(path, reentrant=True)
    return F.FileLock(path)


def _preuse(name, path, F):
    """What the supervisor of a 'forked-X' scenario does before it forks: ordinary earlier use of the object, in a
    different order per scenario (the last operation before the fork is a failed non-blocking attempt / a timed-out
    attempt / a successful acquire-release)."""
    l = _mklock(name, path, F)
    other = F.FileLock(path)

    def success():
        l.acquire(timeout=-1)       # waits for contenders however long they take
        l.release()

    def failed(**kw):
        other.acquire(timeout=-1)
        got = l.acquire(**kw)
        other.release()
        if got:                     # (cannot happen while `other` holds the OS lock)
            l.release()
    if name == 'blocking':
        success()
        failed(blocking=False)
    elif name == 'timed':
        success()
        failed(timeout=0.01, poll_interval=0.002)
    else:
        failed(blocking=False)
        success()
    assert not l.is_locked
    return l


def _scenario(name, path, F, l=None):
    """The code the victim runs; every line event inside aiuti/filelock.py is a crash point."""
    if name.startswith('forked-'):
        name = name[len('forked-'):]
    if name == 'blocking':
        l = l or _mklock(name, path, F)
        l.acquire()
        l.release()
    elif name == 'timed':
        l = l or _mklock(name, path, F)
        if l.acquire(poll_interval=0.005):
            l.release()
    elif name == 'with':
        l = F.FileLock(path)
        with l:
            pass
    elif name == 'ctx':
        l = F.FileLock(path)
        cm = l.acquire_ctx(timeout=0.05, poll_interval=0.005)
        with cm:
            pass
    elif name == 'nested':
        l = l or _mklock(name, path, F)
        with l:
            with l:
                pass
            l.acquire()
            l.release()
    elif name == 'helper-lowfd':
        # as 'helper', in a process whose descriptor 0 is free (a daemon): the lock file is opened as descriptor 0
        import subprocess
        os.close(0)
        l = F.FileLock(path)
        l.acquire()
        subprocess.Popen(['sleep', '0.4'], close_fds=False, stdout=subprocess.DEVNULL, stderr=subprocess.DEVNULL)
        l.release()
        with l:
            pass
    elif name == 'helper':
        # the holder launches a (short-lived) helper process while it holds the lock, through a spawn
        # path that inherits inheritable descriptors; the helper outlives the holder
        import subprocess
        l = F.FileLock(path)
        l.acquire()
        subprocess.Popen(['sleep', '0.4'], close_fds=False, stdout=subprocess.DEVNULL, stderr=subprocess.DEVNULL)
        l.release()
        with l:
            pass
    elif name == 'failing':
        # every unsuccessful way out of acquire: non-blocking failure, timed-out acquire_ctx / with,
        # and a second thread timing out on the object's in-process lock
        import threading
        other = F.FileLock(path)
        other.acquire()
        l = F.FileLock(path, timeout=0.01)
        l.acquire(blocking=False)
        try:
            with l.acquire_ctx(timeout=0.01, poll_interval=0.005):
                pass
        except TimeoutError:
            pass
        try:
            with l:
                pass
        except TimeoutError:
            pass
        other.release()
        l.acquire()
        t = threading.Thread(target=lambda: l.acquire(timeout=0.01))
        t.start()
        t.join()
        l.release()
    elif name == 'contended':
        # another descriptor of this very process holds the lock for a while: the victim polls
        other = F.FileLock(path)
        other.acquire()
        l = F.FileLock(path, timeout=0.03)
        l.acquire(poll_interval=0.005)
        other.release()
        if l.acquire(timeout=0.05, poll_interval=0.005):
            l.release()


def executable_lines():
    """Line numbers of aiuti/filelock.py that belong to function bodies reachable on the Unix path
    (everything except the Windows / unsupported lock classes and module-level code)."""
    import dis
    import aiuti.filelock as F
    lines = set()
    for cls in (F.BaseFileLock, F.UnixFileLock):
        for name, fn in vars(cls).items():
            fn = getattr(fn, 'fget', fn)
            fn = getattr(fn, '__wrapped__', fn)
            code = getattr(fn, '__code__', None)
            if code is None:
                continue
            stack = [code]
            while stack:
                c = stack.pop()
                lines.update(l for _, l in dis.findlinestarts(c) if l and l > c.co_firstlineno)
                stack.extend(k for k in c.co_consts if hasattr(k, 'co_code'))
    return lines


def count_events(name, want_lines=False):
    """Number of line events of aiuti/filelock.py the scenario executes (counting run, in a child)."""
    r, w_ = os.pipe()
    pid = os.fork()
    if pid == 0:
        os.close(r)
        n = [0]
        held = [0]
        import aiuti.filelock as F
        d = _fresh_dir()

        def tr(frame, event, arg):
            if frame.f_code.co_filename.endswith('aiuti/filelock.py'):
                return lt
            return None

        seen = set()

        def lt(frame, event, arg):
            if event == 'line':
                n[0] += 1
                seen.add(frame.f_lineno)
            return lt
        import threading as _th
        pre = _preuse(name[len('forked-'):], os.path.join(d, 'lock'), F) if name.startswith('forked-') else None
        _th.settrace(tr)
        sys.settrace(tr)
        try:
            _scenario(name, os.path.join(d, 'lock'), F, pre)
        finally:
            sys.settrace(None)
        os.write(w_, (str(n[0]) + ' ' + ','.join(map(str, sorted(seen)))).encode())
        os._exit(0)
    os.close(w_)
    data = b''
    import select
    t_end = time.monotonic() + HANG_GUARD_S
    while True:
        left = t_end - time.monotonic()
        if left <= 0 or not select.select([r], [], [], left)[0]:
            # the scenario does not terminate even when it runs alone on a fresh lock file
            os.kill(pid, signal.SIGKILL)
            os.close(r)
            os.waitpid(pid, 0)
            raise ScenarioHang(name)
        b = os.read(r, 64)
        if not b:
            break
        data += b
    os.close(r)
    os.waitpid(pid, 0)
    parts = (data.decode() or '0 ').split(' ')
    if want_lines:
        return int(parts[0]), {int(x) for x in parts[1].split(',') if x}
    return int(parts[0])


def crash_at(name, n, ncontenders=0, rounds=10):
    """Fork a victim that SIGKILLs itself at the n-th line event of aiuti/filelock.py,
    with `ncontenders` live contender processes; then probe.
    -> dict(killed, locked_at_kill, in_acquire_release, probe_ok, probe_wait_s, survivors=..)"""
    import aiuti.filelock as F
    d = _fresh_dir()
    path = os.path.join(d, 'lock')
    info_path = os.path.join(d, 'victim.json')
    # contenders first (they loop acquire / CS / release)
    cps = []
    dead_flag = os.path.join(d, 'victim-reaped')
    idle_r, idle_w = os.pipe()        # closed by the harness after the probe: survivors stay alive (idle) until then
    for i in range(ncontenders):
        out = os.path.join(d, 'c%d.json' % i)
        pid = os.fork()
        if pid == 0:
            code = 0
            os.close(idle_w)
            try:
                # the timed attempts' last poll sleep straddles their deadline (polls at 0, 20, 40 ms; deadline 30 ms)
                contender(path, 3, i, out, ['timed', 'acquire', 'ctx', 'timed-long'], until=dead_flag, timed=(0.03, 0.02))
                os.read(idle_r, 1)
            except BaseException:  # noqa
                code = 3
            os._exit(code)
        cps.append((pid, out))
    os.close(idle_r)
    forked = name.startswith('forked-')
    sup_r = sup_w = hold_r = hold_w = None
    if forked:
        sup_r, sup_w = os.pipe()      # supervisor -> harness: exit status of the victim
        hold_r, hold_w = os.pipe()    # harness -> supervisor: closed when the probe is over
    pid = os.fork()
    if pid == 0:
        os.close(idle_w)
    if pid == 0 and forked:
        # ---- supervisor: earlier use of the object, fork the victim, stay alive until told to go
        os.setsid()               # own process group: the harness can remove supervisor and victim together
        os.close(sup_r)
        os.close(hold_w)
        try:
            pre = _preuse(name[len('forked-'):], path, F)
            vpid = os.fork()
            if vpid == 0:
                os.close(sup_w)
                os.close(hold_r)
                _victim(name, n, path, info_path, F, pre, hold=0.03 if ncontenders else 0)
                os._exit(0)
            _, vst = os.waitpid(vpid, 0)
            vk = os.WIFSIGNALED(vst) and os.WTERMSIG(vst) == signal.SIGKILL
            os.write(sup_w, b'K' if vk else b'N')
            os.close(sup_w)
            os.read(hold_r, 1)        # EOF when the harness has probed
        except BaseException:  # noqa
            import traceback
            traceback.print_exc()
            os._exit(3)
        os._exit(0)
    if pid == 0:
        _victim(name, n, path, info_path, F, None, hold=0.03 if ncontenders else 0)
        os._exit(0)
    if forked:
        os.close(sup_w)
        os.close(hold_r)
        import select
        sup_hung = not select.select([sup_r], [], [], HANG_GUARD_S)[0]
        if sup_hung:
            # the supervisor's own ordinary use of the lock (or the victim, un-killed) does not finish
            try:
                os.killpg(pid, signal.SIGKILL)
            except ProcessLookupError:
                pass
            b = b'H'
        else:
            b = os.read(sup_r, 1)
        os.close(sup_r)
        killed = b == b'K'
        if b == b'H':
            os.close(hold_w)
            os.waitpid(pid, 0)
            res = _after_kill(F, d, path, info_path, cps, False, None, dead_flag, idle_w)
            res['supervisor_hung'] = True
            return res
        if b == b'':
            os.close(hold_w)
            os.waitpid(pid, 0)
            open(dead_flag, 'w').close()
            os.close(idle_w)
            for cpid, _ in cps:
                os.waitpid(cpid, 0)
            import shutil
            shutil.rmtree(d, ignore_errors=True)
            raise RuntimeError('supervisor of %s died before reporting' % name)
    else:
        # wait until the victim is dead but do not reap it yet: a dead, un-reaped holder (a zombie whose pid still
        # answers kill(pid, 0)) must not keep the lock either - probed only when nobody else can be holding it
        os.waitid(os.P_PID, pid, os.WEXITED | os.WNOWAIT)
        early = None
        if ncontenders == 0:
            pr = F.FileLock(path)
            early = bool(pr.acquire(blocking=False))
            if early:
                pr.release()
        _, st = os.waitpid(pid, 0)
        killed = os.WIFSIGNALED(st) and os.WTERMSIG(st) == signal.SIGKILL
    res = _after_kill(F, d, path, info_path, cps, killed, (pid, hold_w) if forked else None, dead_flag, idle_w)
    if not forked:
        res['probe_before_reaping_ok'] = early
    return res


def _victim(name, n, path, info_path, F, pre, hold=0):
    if True:
        cnt = [0]
        locks = [pre] if pre is not None else []
        orig_init = F.BaseFileLock.__init__

        def init(self, *a, **k):
            orig_init(self, *a, **k)
            locks.append(self)
        F.BaseFileLock.__init__ = init

        def tr(frame, event, arg):
            if frame.f_code.co_filename.endswith('aiuti/filelock.py'):
                return lt
            return None

        def lt(frame, event, arg):
            if event == 'line':
                cnt[0] += 1
                if cnt[0] == n:
                    fn = frame.f_code.co_name
                    with open(info_path, 'w') as f:
                        locked = any(l.is_locked for l in locks)
                        json.dump({'locked': locked, 'func': fn, 'line': frame.f_lineno}, f)
                    if locked and hold:
                        # a holder that is slow before it dies: live contenders certainly meet a held lock (and poll)
                        time.sleep(hold)
                    os.kill(os.getpid(), signal.SIGKILL)
            return lt
        import threading as _th
        _th.settrace(tr)
        sys.settrace(tr)
        try:
            _scenario(name, path, F, pre)
        except BaseException:  # noqa
            pass
        os._exit(0)


def _after_kill(F, d, path, info_path, cps, killed, supervisor, dead_flag, idle_w):
    info = json.load(open(info_path)) if os.path.exists(info_path) else {}
    open(dead_flag, 'w').close()          # the victim has been reaped: contenders do their last rounds and go idle
    surv = []
    hung = False
    deadline = time.monotonic() + HANG_GUARD_S + 5
    for cpid, out in cps:
        res = None
        while True:
            if os.path.exists(out):
                try:
                    res = json.load(open(out))
                    break
                except ValueError:
                    pass                   # being written
            p, cst = os.waitpid(cpid, os.WNOHANG)
            if p:                          # died without a result
                cps[cps.index((cpid, out))] = (None, out)
                break
            if time.monotonic() > deadline:
                hung = True
                break
            time.sleep(0.002)
        surv.append(res)
    # deterministic probe: after the victim has been reaped and the surviving contenders have finished their rounds
    # (they are still alive, idle) a fresh FileLock must acquire at once
    probe = F.FileLock(path)
    t0 = time.monotonic()
    ok = probe.acquire(blocking=False)
    wait = time.monotonic() - t0
    if ok:
        probe.release()
    os.close(idle_w)
    for cpid, out in cps:
        if cpid is None:
            continue
        if hung:
            try:
                os.kill(cpid, signal.SIGKILL)
            except ProcessLookupError:
                pass
        os.waitpid(cpid, 0)
    if supervisor is not None:
        os.close(supervisor[1])
        os.waitpid(supervisor[0], 0)
    try:
        counter = int(open(path + '.counter').read() or 0)
    except (FileNotFoundError, ValueError):
        counter = 0
    import shutil
    shutil.rmtree(d, ignore_errors=True)
    return {'killed': killed, 'info': info, 'probe_ok': bool(ok), 'probe_wait_s': wait, 'survivors': surv,
            'survivor_hung': hung, 'counter': counter}
