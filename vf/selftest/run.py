"""Self-tests of the trusted base (DESIGN 2.4): differential tests of every cooperative
shim against the real primitive, virtual-time loop vs the real loop, kernel determinism.
Exit 0 = all agree; exit 2 = the harness is not faithful (never a property verdict).
Run:  ./check selftest"""
import asyncio as aio
import concurrent.futures
import fcntl
import json
import os
import queue
import sys
import tempfile
import threading
import time

from hypothesis import given, settings, seed, HealthCheck, strategies as st

from vf.sim.kernel import Sim
from vf.sim import shims
from vf.sim.world import World

SET = dict(deadline=None, database=None, suppress_health_check=list(HealthCheck))
results = []


def record(name, n):
    results.append((name, n))
    print('  ok  %-52s %d cases' % (name, n))


def in_sim(fn):
    """Run fn inside a one-thread simulated world and return its result."""
    box = {}
    with World() as w:
        w.run([lambda: box.setdefault('r', fn(w.sim))])
        t = w.sim.threads[0]
        if t.exc:
            raise t.exc
    return box.get('r')


# 1. Lock / RLock ------------------------------------------------------------
_lock_ops = st.lists(st.one_of(
    st.tuples(st.just('acq'), st.sampled_from([(True, 0), (False, -1), (True, 0.0), (False, 0), (True, -2), (False, 1)])),
    st.tuples(st.just('rel'), st.none()), st.tuples(st.just('locked'), st.none())), max_size=12)


def _drive(lock, ops):
    out = []
    for op, arg in ops:
        try:
            if op == 'acq':
                out.append(('acq', lock.acquire(*arg)))
            elif op == 'rel':
                out.append(('rel', lock.release()))
            elif hasattr(lock, 'locked'):
                out.append(('locked', lock.locked()))
        except Exception as e:  # noqa
            out.append((op, type(e).__name__))
    # leave it released
    for _ in range(20):
        try:
            lock.release()
        except Exception:  # noqa
            break
    return out


def test_locks():
    n = [0]

    @seed(1)
    @settings(max_examples=400, **SET)
    @given(_lock_ops, st.booleans())
    def t(ops, re):
        n[0] += 1
        real = _drive(threading.RLock() if re else threading.Lock(), [o for o in ops if not (re and o[0] == 'locked')])
        sim = in_sim(lambda s: _drive(shims.SimRLock(s) if re else shims.SimLock(s),
                                      [o for o in ops if not (re and o[0] == 'locked')]))
        assert real == sim, (ops, re, real, sim)
    t()
    record('Lock/RLock sequential differential', n[0])


# 1b. Event / Semaphore ---------------------------------------------------------
def test_event_semaphore():
    n = [0]

    @seed(6)
    @settings(max_examples=300, **SET)
    @given(st.lists(st.sampled_from(['set', 'clear', 'is_set', 'wait0', 'wait-set']), max_size=10),
           st.integers(0, 3), st.lists(st.sampled_from(['acq-nb', 'rel', 'acq-t0', 'bad']), max_size=10), st.booleans())
    def t(eops, value, sops, bounded):
        n[0] += 1

        def drive_event(ev):
            out = []
            for op in eops:
                if op == 'set':
                    ev.set()
                elif op == 'clear':
                    ev.clear()
                elif op == 'is_set':
                    out.append(ev.is_set())
                elif op == 'wait0':
                    out.append(ev.wait(0))
                else:
                    out.append(ev.wait() if ev.is_set() else 'would-block')
            return out

        def drive_sem(sem):
            out = []
            for op in sops:
                try:
                    if op == 'acq-nb':
                        out.append(sem.acquire(False))
                    elif op == 'acq-t0':
                        out.append(sem.acquire(True, 0))
                    elif op == 'rel':
                        out.append(sem.release())
                    else:
                        out.append(sem.acquire(False, 1))
                except ValueError:
                    out.append('ValueError')
            return out
        assert drive_event(threading.Event()) == in_sim(lambda s: drive_event(shims.SimEvent(s)))
        mk_real = (threading.BoundedSemaphore if bounded else threading.Semaphore)
        assert drive_sem(mk_real(value)) == in_sim(lambda s: drive_sem(shims.SimSemaphore(s, value, bounded)))
    t()
    record('Event / (Bounded)Semaphore sequential differential', n[0])


# 2. Queue --------------------------------------------------------------------
def test_queue():
    n = [0]

    @seed(2)
    @settings(max_examples=300, **SET)
    @given(st.lists(st.one_of(st.tuples(st.just('put'), st.integers()), st.tuples(st.just('get'), st.none()),
                              st.tuples(st.just('size'), st.none())), max_size=15))
    def t(ops):
        n[0] += 1

        def drive(q):
            out = []
            for op, x in ops:
                try:
                    if op == 'put':
                        q.put_nowait(x)
                    elif op == 'get':
                        out.append(q.get_nowait())
                    else:
                        out.append((q.qsize(), q.empty()))
                except queue.Empty:
                    out.append('Empty')
            return out
        assert drive(queue.Queue()) == in_sim(lambda s: drive(shims.SimQueue(s)))
    t()
    record('queue.Queue sequential differential', n[0])


# 3. ThreadPoolExecutor -----------------------------------------------------------
def test_executor():
    n = [0]

    @seed(3)
    @settings(max_examples=150, **SET)
    @given(st.integers(1, 3), st.lists(st.tuples(st.integers(0, 5), st.booleans()), max_size=6), st.booleans())
    def t(workers, jobs, after):
        n[0] += 1

        def job(v, fail):
            if fail:
                raise KeyError(v)
            return v * 2

        def drive(make):
            pool = make(workers)
            futs = [pool.submit(job, v, f) for v, f in jobs]
            out = []
            for fu in futs:
                try:
                    out.append(('ok', fu.result()))
                except Exception as e:  # noqa
                    out.append(('exc', type(e).__name__, e.args))
            pool.shutdown(wait=True)
            if after:
                try:
                    pool.submit(job, 1, False)
                    out.append('accepted-after-shutdown')
                except RuntimeError:
                    out.append('RuntimeError')
            return out
        real = drive(lambda w_: concurrent.futures.ThreadPoolExecutor(w_))
        sim = in_sim(lambda s: drive(lambda w_: shims.SimExecutor(s, w_)))
        assert real == sim, (real, sim)
    t()
    record('ThreadPoolExecutor results/exceptions/shutdown differential', n[0])

    # a long job must not make later submissions queue behind it while workers are available
    def long_and_short(make, wait_for, release):
        pool = make(3)
        f1 = pool.submit(wait_for)
        f2 = pool.submit(lambda: 'short-1')
        f3 = pool.submit(lambda: 'short-2')
        r = (f2.result(), f3.result())
        release()
        f1.result()
        pool.shutdown()
        return r
    ev = threading.Event()
    real = long_and_short(lambda w_: concurrent.futures.ThreadPoolExecutor(w_), ev.wait, ev.set)

    def simv(s):
        flag = []
        return long_and_short(lambda w_: shims.SimExecutor(s, w_), lambda: s.block_until(lambda: bool(flag)),
                              lambda: flag.append(1))
    assert real == in_sim(simv) == ('short-1', 'short-2')

    # idle worker re-use: sequential submits must not spawn more threads than the real pool does
    def reuse(make):
        pool = make(4)
        for i in range(5):
            pool.submit(lambda: None).result()
        return pool
    rp = reuse(lambda w_: concurrent.futures.ThreadPoolExecutor(w_))
    real_threads = len(rp._threads)
    rp.shutdown()
    sim_threads = in_sim(lambda s: len(reuse(lambda w_: shims.SimExecutor(s, w_)).workers))
    assert sim_threads <= max(real_threads, 2), (real_threads, sim_threads)
    record('ThreadPoolExecutor long-job / worker re-use scenarios', 2)


# 4. flock --------------------------------------------------------------------
def test_flock():
    d = tempfile.mkdtemp()
    path = os.path.join(d, 'l')
    n = [0]

    @seed(4)
    @settings(max_examples=200, **SET)
    @given(st.lists(st.tuples(st.integers(0, 2), st.sampled_from(['ex-nb', 'un', 'reopen'])), max_size=12))
    def t(ops):
        n[0] += 1

        def drive(flock):
            fds = [os.open(path, os.O_RDWR | os.O_CREAT) for _ in range(3)]
            out = []
            try:
                for i, op in ops:
                    try:
                        if op == 'ex-nb':
                            flock(fds[i], fcntl.LOCK_EX | fcntl.LOCK_NB)
                            out.append('locked')
                        elif op == 'un':
                            flock(fds[i], fcntl.LOCK_UN)
                            out.append('unlocked')
                        else:
                            os.close(fds[i])
                            fds[i] = os.open(path, os.O_RDWR | os.O_CREAT)
                            out.append('reopened')
                    except OSError as e:
                        out.append(type(e).__name__)
            finally:
                for fd in fds:
                    os.close(fd)
            return out
        real = drive(fcntl.flock)
        sim = in_sim(lambda s: drive(shims.make_fcntl_shim(s, shims.FdLedger()).flock))
        assert real == sim, (ops, real, sim)
    t()
    import shutil
    shutil.rmtree(d, ignore_errors=True)
    record('flock non-blocking semantics differential', n[0])


# 5. virtual-time loop vs real loop ----------------------------------------------
def test_loop():
    n = [0]
    SCALE = 0.01

    @seed(5)
    @settings(max_examples=40, **SET)
    @given(st.lists(st.tuples(st.integers(0, 6), st.sampled_from(['ret', 'raise', 'timeout', 'cancel'])), min_size=1, max_size=5))
    def t(specs):
        n[0] += 1
        # distinct delays so that completion order is well defined in real time too
        delays = sorted({d for d, _ in specs})
        specs2 = [(delays.index(d) * 2 + i * 0.0, k) for i, (d, k) in enumerate(specs)]

        def program(unit):
            order = []

            async def work(i, d, kind):
                try:
                    if kind == 'timeout':
                        await aio.wait_for(aio.sleep(d * unit + 5 * unit), d * unit)
                    else:
                        await aio.sleep(d * unit)
                    if kind == 'raise':
                        raise KeyError(i)
                    order.append(('done', i))
                    return i
                except aio.CancelledError:
                    order.append(('cancelled', i))
                    raise
                except aio.TimeoutError:
                    order.append(('timeout', i))
                    raise

            async def main():
                ts = [aio.ensure_future(work(i, d, k)) for i, (d, k) in enumerate(specs2)]
                for i, (d, k) in enumerate(specs2):
                    if k == 'cancel':
                        aio.get_running_loop().call_later(max(0, d - 1) * unit, ts[i].cancel)
                res = await aio.gather(*ts, return_exceptions=True)
                return [type(r).__name__ if isinstance(r, BaseException) else r for r in res], order
            return main
        real = aio.run(program(SCALE)())
        sim = in_sim(lambda s: aio.run(program(1.0)()))
        assert real[0] == sim[0], (specs2, real, sim)
        assert sorted(real[1]) == sorted(sim[1]), (specs2, real, sim)
    t()
    record('virtual-time loop vs real loop (results, outcome kinds)', n[0])


# 6. determinism of every simulated harness ----------------------------------------
def test_determinism():
    from vf.runner import load_prop, jsonable
    total = 0
    for pid in ['C01', 'C03', 'C04', 'C07', 'C09', 'C10', 'C16', 'C17', 'C02', 'C15', 'C20']:
        mod = load_prop(pid)
        cases = []

        @seed(11)
        @settings(max_examples=12, **SET)
        @given(mod.strategy('quick'))
        def t(case):
            cases.append(case)
        t()
        for c in cases:
            a = json.dumps(jsonable(mod.run_case(c).summary), sort_keys=True)
            b = json.dumps(jsonable(mod.run_case(c).summary), sort_keys=True)
            assert a == b, ('non-deterministic harness', pid, c)
            total += 1
    record('same case twice -> identical history (11 harnesses)', total)


def test_spin_and_stall():
    """A sleep(0) spinner must not freeze the virtual clock, and must not sleep through an event it spins on;
    a stall delays exactly the thread it names by the stated virtual time."""
    n = 0
    for delay in (0.0, 0.25, 3.0):
        for setter_first in (False, True):
            with World() as w:
                sim = w.sim
                flag = []
                seen = {}

                def spinner():
                    while not flag:
                        sim.sleep(0)
                    seen['spinner'] = (sim.now, sim.steps)

                def setter():
                    if delay:
                        sim.sleep(delay)
                    flag.append(1)
                    seen['setter'] = sim.now

                def watchdog():
                    sim.sleep(50)
                    sim.request_abort('horizon')
                sim.spawn(watchdog, name='watchdog', daemon=True)
                w.run([setter, spinner] if setter_first else [spinner, setter])
                assert sim.abort_reason is None, ('spinner did not finish', delay, sim.abort_reason)
                assert seen['setter'] == delay and seen['spinner'][0] == delay, ('spinner woke at the wrong time', delay, seen)
                assert seen['spinner'][1] < 200, ('spinner burned steps', seen)
                n += 1
    # real threads for comparison: the same program finishes (no assertion on time, only on outcome)
    import threading
    flag = []
    t = threading.Thread(target=lambda: (time.sleep(0.05), flag.append(1)))
    t.start()
    while not flag:
        time.sleep(0)
    t.join()
    n += 1
    # stall: thread B is held for 0.5 virtual seconds before its first traced line; A is not
    import vf.selftest.traced_probe as tp
    for who in (0, 1):
        with World(schedule={'mode': 'stall', 'at': [['traced_probe.py', tp.FIRST_LINE, who, 0.5]]},
                   trace=('vf/selftest/traced_probe.py',)) as w:
            sim = w.sim
            out = {}

            def mk(name):
                def run():
                    tp.probe()
                    out[name] = sim.now
                return run
            w.run([mk('A'), mk('B')])
            first, second = ('A', 'B')
            assert out[first if who == 0 else second] == 0.5 and out[second if who == 0 else first] == 0.0, (who, out)
            n += 1
    record('sleep(0) spinner vs virtual clock; stall delays the named thread', n)


def main():
    t0 = time.time()
    try:
        test_spin_and_stall()
        test_locks()
        test_event_semaphore()
        test_queue()
        test_executor()
        test_flock()
        test_loop()
        test_determinism()
    except AssertionError as e:
        print('SELFTEST FAILED:', str(e)[:2000])
        return 2
    print('selftest: %d groups, all agree, %.1fs' % (len(results), time.time() - t0))
    return 0


if __name__ == '__main__':
    sys.path.insert(0, os.environ.get('VERIF_REPO', '/repo'))
    sys.exit(main())
