"""A tiny traced module for the scheduler self-tests."""


def probe():
    x = 1          # FIRST_LINE
    x += 1
    return x


FIRST_LINE = 5
