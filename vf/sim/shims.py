"""Cooperative replacements for the blocking primitives Aiuti uses (DESIGN §2.4).

Installed into the ``aiuti.*`` modules *by identity* of the global's value, so
``from threading import Lock as L`` style refactors keep working.
"""
import concurrent.futures
import fcntl as _real_fcntl
import os as _real_os
import queue as _real_queue
import threading as _real_threading
import time as _real_time
import types
from concurrent.futures import Future as CFuture

from .kernel import SimAbort

_REAL_LOCK_TYPE = type(_real_threading.Lock())
_REAL_RLOCK_TYPE = type(_real_threading.RLock())


def _check_lock_args(blocking, timeout):
    # same argument validation as CPython's lock.acquire
    if not isinstance(timeout, (int, float)):
        raise TypeError("'%s' object cannot be interpreted as an integer or float"
                        % type(timeout).__name__)
    if timeout < 0 and timeout != -1:
        raise ValueError("timeout value must be a non-negative number")
    if not blocking and timeout != -1:
        raise ValueError("can't specify a timeout for a non-blocking call")


class SimLock:
    def __init__(self, sim, name=None):
        self.sim = sim
        self.owner = None
        self.name = name
        sim.locks.append(self)

    def acquire(self, blocking=True, timeout=-1):
        _check_lock_args(blocking, timeout)
        sim = self.sim
        sim.yield_point(('lock-acq', self.name))
        if self.owner is None:
            self.owner = sim.me() or 'outside'
            return True
        if not blocking:
            return False
        if sim.passthrough or sim.me() is None:
            return False
        ok = sim.block_until(lambda: self.owner is None,
                             None if timeout < 0 else timeout, what=('lock', self.name))
        if ok:
            self.owner = sim.me()
        return ok

    def release(self):
        if self.owner is None:
            raise RuntimeError('release unlocked lock')
        self.owner = None

    def locked(self):
        return self.owner is not None

    def __enter__(self):
        self.acquire()
        return True

    def __exit__(self, *a):
        self.release()


class SimRLock:
    def __init__(self, sim, name=None):
        self.sim = sim
        self.owner = None
        self.depth = 0
        self.name = name
        sim.locks.append(self)

    def acquire(self, blocking=True, timeout=-1):
        _check_lock_args(blocking, timeout)
        sim = self.sim
        me = sim.me() or 'outside'
        sim.yield_point(('rlock-acq', self.name))
        if self.owner is me:
            self.depth += 1
            return True
        if self.owner is None:
            self.owner, self.depth = me, 1
            return True
        if not blocking:
            return False
        if sim.passthrough or sim.me() is None:
            return False
        ok = sim.block_until(lambda: self.owner is None,
                             None if timeout < 0 else timeout, what=('rlock', self.name))
        if ok:
            self.owner, self.depth = me, 1
        return ok

    def release(self):
        me = self.sim.me() or 'outside'
        if self.owner is not me:
            raise RuntimeError('cannot release un-acquired lock')
        self.depth -= 1
        if self.depth == 0:
            self.owner = None

    def locked(self):
        return self.owner is not None

    def __enter__(self):
        self.acquire()
        return True

    def __exit__(self, *a):
        self.release()


class SimEvent:
    """Cooperative threading.Event."""

    def __init__(self, sim):
        self.sim = sim
        self._flag = False

    def is_set(self):
        return self._flag

    isSet = is_set

    def set(self):
        self._flag = True

    def clear(self):
        self._flag = False

    def wait(self, timeout=None):
        if not self._flag and self.sim.me() is not None and not self.sim.passthrough:
            self.sim.block_until(lambda: self._flag, timeout, what=('event',))
        else:
            self.sim.yield_point(('event-wait',))
        return self._flag


class SimSemaphore:
    """Cooperative threading.Semaphore / BoundedSemaphore."""

    def __init__(self, sim, value=1, bounded=False):
        if value < 0:
            raise ValueError("semaphore initial value must be >= 0")
        self.sim = sim
        self._value = value
        self._initial = value
        self._bounded = bounded

    def acquire(self, blocking=True, timeout=None):
        if not blocking and timeout is not None:
            raise ValueError("can't specify timeout for non-blocking acquire")
        self.sim.yield_point(('sem-acq',))
        if self._value > 0:
            self._value -= 1
            return True
        if not blocking or self.sim.me() is None or self.sim.passthrough:
            return False
        if self.sim.block_until(lambda: self._value > 0, timeout, what=('semaphore',)):
            self._value -= 1
            return True
        return False

    def release(self, n=1):
        if n < 1:
            raise ValueError('n must be one or more')
        if self._bounded and self._value + n > self._initial:
            raise ValueError('Semaphore released too many times')
        self._value += n

    __enter__ = acquire

    def __exit__(self, *a):
        self.release()


class SimCondition:
    """Cooperative threading.Condition (over a SimLock / SimRLock)."""

    def __init__(self, sim, lock=None):
        self.sim = sim
        self._lock = lock if lock is not None else SimRLock(sim)
        self._gen = 0
        self._tokens = 0
        self.acquire = self._lock.acquire
        self.release = self._lock.release

    def __enter__(self):
        return self._lock.__enter__()

    def __exit__(self, *a):
        return self._lock.__exit__(*a)

    def wait(self, timeout=None):
        me_gen = self._gen
        saved = getattr(self._lock, 'depth', 1)
        owner = self._lock.owner
        # release fully
        self._lock.owner = None
        if hasattr(self._lock, 'depth'):
            self._lock.depth = 0
        ok = self.sim.block_until(lambda: self._tokens > 0 and self._gen > me_gen, timeout, what=('condition',))
        if ok:
            self._tokens -= 1
        self.sim.block_until(lambda: self._lock.owner is None, None, what=('condition-reacquire',))
        self._lock.owner = owner
        if hasattr(self._lock, 'depth'):
            self._lock.depth = saved
        return ok

    def wait_for(self, predicate, timeout=None):
        end = None if timeout is None else self.sim.now + timeout
        r = predicate()
        while not r:
            left = None if end is None else end - self.sim.now
            if left is not None and left <= 0:
                break
            self.wait(left)
            r = predicate()
        return r

    def notify(self, n=1):
        self._gen += 1
        self._tokens += n

    def notify_all(self):
        self._gen += 1
        self._tokens += 1 << 20

    notifyAll = notify_all


class SimCFuture(CFuture):
    def __init__(self, sim):
        super().__init__()
        self._sim = sim

    def result(self, timeout=None):
        if not self.done():
            self._sim.block_until(self.done, timeout, what=('cfuture',))
        return super().result(0)

    def exception(self, timeout=None):
        if not self.done():
            self._sim.block_until(self.done, timeout, what=('cfuture',))
        return super().exception(0)


class SimExecutor:
    """Cooperative ThreadPoolExecutor: workers are daemon sim threads."""

    def __init__(self, sim, max_workers=None, thread_name_prefix='', **kw):
        self.sim = sim
        self.max_workers = max_workers or 32
        self.pending = []
        self.workers = []
        self.idle = 0
        self.closed = False
        self.serial = len(sim.executors)
        sim.executors.append(self)

    def submit(self, fn, *a, **kw):
        if self.closed:
            raise RuntimeError('cannot schedule new futures after shutdown')
        f = SimCFuture(self.sim)
        self.pending.append((f, fn, a, kw))
        # same accounting as CPython's ThreadPoolExecutor._adjust_thread_count: one idle token
        # per worker that finished a work item; a submit consumes a token or spawns a thread
        if self.idle > 0:
            self.idle -= 1
        elif len(self.workers) < self.max_workers:
            self.workers.append(self.sim.spawn(
                self._worker, name=f'pool{self.serial}-{len(self.workers)}', daemon=True))
        return f

    def _worker(self):
        sim = self.sim
        while True:
            sim.block_until(lambda: bool(self.pending) or self.closed, what=('pool-idle', self.serial))
            if not self.pending:
                return
            f, fn, a, kw = self.pending.pop(0)
            if f.set_running_or_notify_cancel():
                try:
                    r = fn(*a, **kw)
                except SimAbort:
                    raise
                except BaseException as e:  # noqa
                    f.set_exception(e)
                else:
                    f.set_result(r)
            self.idle += 1

    def busy(self):
        return [w for w in self.workers if w.state != 'done']

    def shutdown(self, wait=True, cancel_futures=False):
        self.closed = True
        if cancel_futures:
            for f, *_ in self.pending:
                f.cancel()
            self.pending.clear()
        if wait and self.sim.me() is not None and not self.sim.passthrough:
            self.sim.block_until(lambda: all(w.state == 'done' for w in self.workers),
                                 what=('pool-shutdown', self.serial))

    def __enter__(self):
        return self

    def __exit__(self, *a):
        self.shutdown(wait=True)
        return False


class SimQueue:
    """Cooperative queue.Queue (the subset Aiuti uses, unbounded)."""

    def __init__(self, sim, maxsize=0):
        self.sim = sim
        self.items = []

    def put_nowait(self, x):
        self.items.append(x)

    def put(self, x, block=True, timeout=None):
        self.items.append(x)

    def get(self, block=True, timeout=None):
        if not self.items:
            if not block:
                raise _real_queue.Empty
            if not self.sim.block_until(lambda: bool(self.items), timeout, what=('queue',)):
                raise _real_queue.Empty
        else:
            self.sim.yield_point(('queue-get',))
        return self.items.pop(0)

    def get_nowait(self):
        return self.get(False)

    def qsize(self):
        return len(self.items)

    def empty(self):
        return not self.items


class FdLedger:
    """Tracks descriptors opened through the os shim, and injects OSErrors."""

    def __init__(self):
        self.open_fds = {}          # fd -> path
        self.calls = []             # ('open'|'close'|'flock-ex'|'flock-un', ok)
        self.inject = {}            # call index (over all four kinds) -> True
        self.n = 0

    def _tick(self, kind):
        i = self.n
        self.n += 1
        bad = self.inject.get(i) or self.inject.get((kind, sum(1 for c in self.calls if c[0] == kind)))
        self.calls.append((kind, not bad))
        return bool(bad)


def make_os_shim(sim, ledger):
    def sim_open(path, flags, mode=0o777, *a, **kw):
        sim.yield_point(('os.open',))
        if ledger._tick('open'):
            raise OSError(24, 'injected: too many open files')
        fd = _real_os.open(path, flags, mode, *a, **kw)
        ledger.open_fds[fd] = str(path)
        return fd

    def sim_close(fd):
        sim.yield_point(('os.close',))
        bad = ledger._tick('close')
        _real_os.close(fd)
        ledger.open_fds.pop(fd, None)
        if bad:
            raise OSError(5, 'injected: close failed (descriptor is closed)')

    ns = types.ModuleType('os_shim')
    ns.__dict__.update({k: v for k, v in _real_os.__dict__.items() if not k.startswith('__')})
    ns.open = sim_open
    ns.close = sim_close
    return ns


def make_fcntl_shim(sim, ledger):
    def flock(fd, op):
        if hasattr(fd, 'fileno'):
            fd = fd.fileno()
        if op & _real_fcntl.LOCK_UN:
            sim.yield_point(('flock-un',))
            if ledger._tick('flock-un'):
                raise OSError(5, 'injected: unlock failed')
            return _real_fcntl.flock(fd, op)
        sim.yield_point(('flock',))
        if ledger._tick('flock-ex'):
            raise OSError(37, 'injected: no locks available')
        try:
            return _real_fcntl.flock(fd, op | _real_fcntl.LOCK_NB)
        except BlockingIOError:
            if op & _real_fcntl.LOCK_NB or sim.passthrough or sim.me() is None:
                raise

        def retry():
            try:
                _real_fcntl.flock(fd, op | _real_fcntl.LOCK_NB)
                return True
            except BlockingIOError:
                return False
        sim.block_until(retry, None, what=('flock', fd))
        return None

    ns = types.ModuleType('fcntl_shim')
    ns.__dict__.update({k: v for k, v in _real_fcntl.__dict__.items() if not k.startswith('__')})
    ns.flock = flock
    return ns


class Installed:
    """Result of install(): restores every rebound global on ``restore()``."""

    def __init__(self):
        self.undo = []
        self.ledger = None

    def restore(self):
        for mod, name, old in reversed(self.undo):
            setattr(mod, name, old)
        self.undo.clear()


def install(sim, modules, ledger=None):
    """Rebind, in each given module, every global whose value *is* one of the
    blocking primitives, to its cooperative shim."""
    sim.locks = getattr(sim, 'locks', [])
    sim.executors = getattr(sim, 'executors', [])
    inst = Installed()
    ledger = ledger or FdLedger()
    inst.ledger = ledger

    threading_ns = types.ModuleType('threading_shim')
    threading_ns.__dict__.update({k: v for k, v in _real_threading.__dict__.items()
                                  if not k.startswith('__')})
    threading_ns.Lock = lambda: SimLock(sim)
    threading_ns.RLock = lambda: SimRLock(sim)
    threading_ns.Event = lambda: SimEvent(sim)
    threading_ns.Semaphore = lambda value=1: SimSemaphore(sim, value)
    threading_ns.BoundedSemaphore = lambda value=1: SimSemaphore(sim, value, bounded=True)
    threading_ns.Condition = lambda lock=None: SimCondition(sim, lock)

    time_ns = types.ModuleType('time_shim')
    time_ns.__dict__.update({k: v for k, v in _real_time.__dict__.items()
                             if not k.startswith('__')})
    time_ns.time = lambda: sim.now
    time_ns.monotonic = lambda: sim.now
    time_ns.perf_counter = lambda: sim.now
    time_ns.sleep = sim.sleep

    queue_ns = types.ModuleType('queue_shim')
    queue_ns.__dict__.update({k: v for k, v in _real_queue.__dict__.items()
                              if not k.startswith('__')})
    queue_ns.Queue = lambda maxsize=0: SimQueue(sim, maxsize)

    by_identity = [
        (_real_threading.Lock, lambda: SimLock(sim)),
        (_real_threading.RLock, lambda: SimRLock(sim)),
        (_real_threading.Event, lambda: SimEvent(sim)),
        (_real_threading.Semaphore, lambda value=1: SimSemaphore(sim, value)),
        (_real_threading.BoundedSemaphore, lambda value=1: SimSemaphore(sim, value, bounded=True)),
        (_real_threading.Condition, lambda lock=None: SimCondition(sim, lock)),
        (_real_time.sleep, sim.sleep),
        (_real_time.time, lambda: sim.now),
        (_real_time.monotonic, lambda: sim.now),
        (concurrent.futures.ThreadPoolExecutor,
         lambda *a, **kw: SimExecutor(sim, *a, **kw)),
        (_real_threading, threading_ns),
        (_real_time, time_ns),
        (_real_queue, queue_ns),
        (_real_queue.Queue, lambda maxsize=0: SimQueue(sim, maxsize)),
    ]
    os_ns = fcntl_ns = None
    for mod in modules:
        for name, val in list(vars(mod).items()):
            new = None
            for real, shim in by_identity:
                if val is real:
                    new = shim
                    break
            else:
                if isinstance(val, _REAL_LOCK_TYPE):
                    new = SimLock(sim, name=name)
                elif isinstance(val, _REAL_RLOCK_TYPE):
                    new = SimRLock(sim, name=name)
                elif isinstance(val, concurrent.futures.ThreadPoolExecutor):
                    new = SimExecutor(sim, val._max_workers)
                elif val is _real_fcntl and mod.__name__.endswith('filelock'):
                    fcntl_ns = fcntl_ns or make_fcntl_shim(sim, ledger)
                    new = fcntl_ns
                elif val is _real_os and mod.__name__.endswith('filelock'):
                    os_ns = os_ns or make_os_shim(sim, ledger)
                    new = os_ns
            if new is not None:
                inst.undo.append((mod, name, val))
                setattr(mod, name, new)
            elif isinstance(val, dict) and val and all(
                    isinstance(v, (_REAL_LOCK_TYPE, _REAL_RLOCK_TYPE, SimLock, SimRLock))
                    for v in val.values()):
                # registries of locks created on demand (keyed by id()): stale
                # entries from an earlier world must not be reused
                val.clear()
    return inst
