"""Virtual-time event loop (DESIGN §2.3)."""
import asyncio
import heapq
import asyncio.tasks as _tasks
import asyncio.runners as _runners
import weakref


class SimSelector:
    """Wraps the loop's real selector; never sleeps in real time."""

    def __init__(self, sim, real, loop):
        self.sim, self.real, self.loop = sim, real, loop

    def select(self, timeout=None):
        sim = self.sim
        if sim.passthrough or sim.me() is None:
            return self.real.select(0)
        ev = self.real.select(0)
        if ev or (timeout is not None and timeout <= 0):
            sim.yield_point(('select0',))
            return ev
        box = []

        def pred():
            e = self.real.select(0)
            if e:
                box.append(e)
                return True
            return False
        sim.block_until(pred, timeout, what=('select', self.loop.sim_name))
        return box[-1] if box else self.real.select(0)

    def __getattr__(self, n):
        return getattr(self.real, n)


class _TieTimer(asyncio.TimerHandle):
    """A timer whose order among equal deadlines is given by an explicit tie-break value."""
    __slots__ = ('_tie',)

    def __lt__(self, other):
        if isinstance(other, asyncio.TimerHandle):
            if self._when != other._when:
                return self._when < other._when
            return self._tie < getattr(other, '_tie', 0)
        return NotImplemented

    def __gt__(self, other):
        if isinstance(other, asyncio.TimerHandle):
            if self._when != other._when:
                return self._when > other._when
            return self._tie > getattr(other, '_tie', 0)
        return NotImplemented

    def __le__(self, other):
        return not self.__gt__(other)

    def __ge__(self, other):
        return not self.__lt__(other)


class SimLoop(asyncio.SelectorEventLoop):
    """SelectorEventLoop whose clock is the kernel's virtual clock.

    Logs run_forever entry/exit (with the kernel step counter and a per-loop
    run generation) and close() into ``sim.loop_log``.
    """

    def __init__(self, sim):
        super().__init__()
        self.sim = sim
        self.sim_name = 'L%d' % len(sim.loops)
        sim.loops.append(self)
        self._selector = SimSelector(sim, self._selector, self)
        self._clock_resolution = 1e-9
        self.run_gen = 0
        self.runner_thread = None
        self.set_debug(False)

    def time(self):
        return self.sim.now

    def call_at(self, when, callback, *args, context=None):
        # Tie-breaking: timers that a program places on one virtual instant all expire in the same loop iteration (as
        # near-simultaneous real timers do), but in real time their order is arbitrary.  With a tie seed the order among
        # equal deadlines is decided by the (generated) seed instead of by the heap's insertion-dependent order.
        seed = getattr(self.sim, 'tie_seed', None)
        if not seed:
            return super().call_at(when, callback, *args, context=context)
        if when is None:
            raise TypeError("when cannot be None")
        self._check_closed()
        self._tie_n = getattr(self, '_tie_n', 0) + 1
        timer = _TieTimer(when, callback, args, self, context)
        h = (seed * 0x9E3779B1 + self._tie_n * 0x85EBCA6B) & 0xFFFFFFFF      # a small integer mix: order among ties
        h ^= h >> 15                                                            # must not follow insertion order
        h = (h * 0x2C1B3C6D) & 0xFFFFFFFF
        h ^= h >> 12
        h = (h * 0x297A2D39) & 0xFFFFFFFF
        timer._tie = h ^ (h >> 15)
        heapq.heappush(self._scheduled, timer)
        timer._scheduled = True
        return timer

    def run_forever(self):
        sim = self.sim
        me = sim.me()
        self.run_gen += 1
        gen = self.run_gen
        sim.loop_log.append(('run-enter', self.sim_name, gen, sim.steps, sim.now,
                             me.name if me else None))
        try:
            return super().run_forever()
        finally:
            # unwinding of an aborted world is not an observation of the program
            sim.loop_log.append(('run-abort' if sim.aborted else 'run-exit', self.sim_name, gen,
                                 sim.steps, sim.now, me.name if me else None))

    def close(self):
        if not self.is_closed() and not self.sim.aborted:
            self.sim.loop_log.append(('close', self.sim_name, self.run_gen,
                                      self.sim.steps, self.sim.now, None))
        super().close()

    def call_soon(self, callback, *args, context=None):
        _stamp(callback)
        return super().call_soon(callback, *args, context=context)


# -- deterministic all_tasks ------------------------------------------------
# asyncio.all_tasks returns a set (ordered by id()); asyncio.run cancels the
# leftovers in that order, which would make replays depend on memory layout.
# Tasks are stamped with a serial the first time their step is scheduled (at
# creation), and all_tasks is made to return them in that order.
_SERIAL = weakref.WeakKeyDictionary()
_counter = [0]


def _stamp(callback):
    t = getattr(callback, '__self__', None)
    if isinstance(t, asyncio.Future) and t not in _SERIAL:
        _counter[0] += 1
        _SERIAL[t] = _counter[0]


_orig_all_tasks = _tasks.all_tasks


class _OrderedTaskSet(list):
    """A list that answers the few set operations asyncio uses."""

    def __contains__(self, x):
        return any(x is y for y in self)


def _ordered_all_tasks(loop=None):
    ts = _orig_all_tasks(loop)
    return _OrderedTaskSet(sorted(ts, key=lambda t: _SERIAL.get(t, 0)))


def install_ordered_all_tasks():
    _tasks.all_tasks = _ordered_all_tasks
    asyncio.all_tasks = _ordered_all_tasks


def uninstall_ordered_all_tasks():
    _tasks.all_tasks = _orig_all_tasks
    asyncio.all_tasks = _orig_all_tasks


class SimPolicy(asyncio.DefaultEventLoopPolicy):
    def __init__(self, sim):
        super().__init__()
        self.sim = sim

    def new_event_loop(self):
        return SimLoop(self.sim)
