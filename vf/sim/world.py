"""One simulated world per case: kernel + virtual-time loops + shims + teardown."""
import asyncio
import gc
import logging
import os
import threading
import warnings

from .kernel import Sim, SimAbort, HarnessError  # noqa: F401
from .loop import SimPolicy, SimLoop, install_ordered_all_tasks
from .schedules import Chooser
from . import shims

logging.disable(logging.CRITICAL)
warnings.simplefilter('ignore')
install_ordered_all_tasks()

_case_counter = [0]


def fd_count():
    return len(os.listdir('/proc/self/fd'))


class World:
    """Context manager: builds a fresh Sim, installs the loop policy and the
    cooperative shims into the given modules, and tears everything down so
    that no thread, fd or loop outlives the case."""

    def __init__(self, schedule=None, trace=(), modules=(), max_steps=400000, tie_seed=None):
        self.tie_seed = tie_seed
        self.schedule = schedule or {'mode': 'none'}
        self.trace = tuple(trace)
        self.modules = tuple(modules)
        self.max_steps = max_steps
        self.keep = []   # objects (tasks, coroutines, ctx managers) kept alive until teardown

    def __enter__(self):
        self.threads0 = threading.active_count()
        self.fds0 = fd_count()
        self.chooser = Chooser(self.schedule)
        self.sim = Sim(chooser=self.chooser, trace_suffixes=self.trace,
                       max_steps=self.max_steps)
        self.sim.locks = []
        self.sim.executors = []
        self.sim.tie_seed = self.tie_seed
        self.old_policy = asyncio.get_event_loop_policy()
        asyncio.set_event_loop_policy(SimPolicy(self.sim))
        self.inst = shims.install(self.sim, self.modules)
        self.ledger = self.inst.ledger
        gc.disable()
        return self

    def new_loop(self):
        return SimLoop(self.sim)

    def run(self, fns, names=None):
        self.sim.run(fns, names)
        return self.sim

    def __exit__(self, et, ev, tb):
        sim = self.sim
        sim.passthrough = True
        sim.aborted = True
        try:
            for ex in sim.executors:
                ex.closed = True
            # Close every coroutine that is still suspended (pending tasks of stopped/closed loops, objects the
            # harness kept alive).  Their finally-blocks run now, through the pass-through shims, instead of at
            # some later garbage collection - and, on CPython 3.12, a suspended frame that has been line-traced
            # is otherwise never freed (it keeps the whole world alive: measured +70 objects per case).
            for loop in sim.loops:
                try:
                    pending = [t for t in asyncio.all_tasks(loop)]
                except Exception:  # noqa
                    pending = []
                for t in pending:
                    try:
                        t.get_coro().close()
                    except BaseException:  # noqa
                        pass
            for o in self.keep:
                if asyncio.iscoroutine(o) or hasattr(o, 'aclose') or hasattr(o, 'close') and hasattr(o, 'gi_frame'):
                    try:
                        o.close() if hasattr(o, 'close') else None
                    except BaseException:  # noqa
                        pass
            for loop in sim.loops:
                try:
                    if not loop.is_closed():
                        loop._thread_id = None
                        loop.close()
                except Exception:  # noqa
                    pass
            for fd in list(self.ledger.open_fds):
                try:
                    os.close(fd)
                except OSError:
                    pass
        finally:
            self.inst.restore()
            asyncio.set_event_loop_policy(self.old_policy)
            self.keep.clear()
            gc.enable()
            _case_counter[0] += 1
            if _case_counter[0] % 8 == 0:
                gc.collect()
        if et is None or et is SimAbort:
            n = threading.active_count()
            if n > self.threads0:
                gc.collect()
                raise HarnessError('threads outlived the case: %d -> %d: %s'
                                   % (self.threads0, n, [t.name for t in threading.enumerate()]))
            f = fd_count()
            if f > self.fds0:
                gc.collect()
                f = fd_count()
                if f > self.fds0:
                    raise HarnessError('file descriptors outlived the case: %d -> %d'
                                       % (self.fds0, f))
        return False


def classify_stop(sim):
    """'finished' | 'deadlock' | 'livelock' | 'inconclusive' | 'requested:<why>'"""
    r = sim.abort_reason
    if r is None:
        return 'finished'
    if r == 'step-bound':
        if sim.last_advance_step < sim.max_steps // 2:
            return 'livelock'
        return 'inconclusive'
    return r


def blame(exc):
    """'aiuti' if the exception's traceback passes through the code under test
    (then it is an observation: the program died), else 'harness'."""
    tb = exc.__traceback__
    while tb is not None:
        if '/aiuti/' in tb.tb_frame.f_code.co_filename:
            return 'aiuti'
        tb = tb.tb_next
    return 'harness'


def thread_exc_violations(thread_excs, V):
    """Split thread exceptions into violations (died inside / because of the code
    under test) and harness errors."""
    viol, harness = [], []
    for name, e in thread_excs:
        if blame(e) == 'aiuti':
            viol.append(V('thread-died', f'thread {name} died with {e!r} raised through aiuti code',
                          'thread-died:' + type(e).__name__))
        else:
            harness.append((name, e))
    return viol, harness
