"""Deterministic simulation kernel (DESIGN §2.2).

Real OS threads, exactly one of which runs at a time ("holds the turn").
Every executed source line of the traced files, every cooperative shim and
every explicit ``yield_point`` is a scheduling decision point.  Which
runnable thread continues is decided by a *chooser* built from the generated
schedule (vf/sim/schedules.py).  Time is virtual: the clock jumps only when no
thread can run.

Nothing here knows about Aiuti.
"""
import sys
import threading
import time as _real_time
import traceback


class SimAbort(BaseException):
    """Raised at every kernel entry once the simulation is being torn down."""


class HarnessError(Exception):
    """The harness (not the code under test) misbehaved: exit 2, never a verdict."""


class SimThread:
    __slots__ = ('sim', 'fn', 'name', 'go', 'state', 'pred', 'deadline', 'exc',
                 'result', 'th', 'daemon', 'index', 'blocked_on', 'spin', 'own_steps', 'spin_key')

    def __init__(self, sim, fn, name, daemon, index):
        self.sim, self.fn, self.name = sim, fn, name
        self.go = threading.Semaphore(0)
        self.state = 'new'          # runnable | blocked | done
        self.pred = None
        self.deadline = None
        self.exc = None
        self.result = None
        self.daemon = daemon
        self.index = index
        self.blocked_on = None
        self.spin = 0
        self.own_steps = 0
        self.spin_key = None
        self.th = threading.Thread(target=self._main, name='sim-' + name, daemon=True)

    def _main(self):
        self.go.acquire()
        sim = self.sim
        sim.tls.me = self
        if sim.trace_suffixes:
            sys.settrace(sim._trace)
        try:
            if sim.aborted:
                raise SimAbort
            self.result = self.fn()
        except SimAbort:
            pass
        except BaseException as e:  # noqa - recorded for the harness
            self.exc = e
        finally:
            sys.settrace(None)
            self.state = 'done'
            sim._handoff_from_dead(self)

    def __repr__(self):
        return f'<SimThread {self.name} {self.state}>'


class Sim:
    """One simulated world.  Create, ``run([...])``, inspect, drop."""

    def __init__(self, chooser=None, trace_suffixes=(), max_steps=400000,
                 step_watchdog_s=30.0):
        self.now = 0.0
        self.threads = []
        self.tls = threading.local()
        self.trace_suffixes = tuple(trace_suffixes)
        self.steps = 0
        self.max_steps = max_steps
        self.aborted = False
        self.abort_reason = None      # None | 'deadlock' | 'step-bound' | 'requested:<why>'
        self.deadlock_report = None
        self.finished = False         # all non-daemon threads done
        self.main_done = threading.Semaphore(0)
        self.decisions = 0
        self.chooser = chooser        # object with .choose(run, cur, info, sim) -> thread
        self.line_hits = {}
        self.stalls = dict(getattr(chooser, 'stalls', None) or {})
        self.stall_hits = {}
        self.stalled = 0
        self.seen_lines = set()
        self.on_advance = []          # callbacks (old, new)
        self.on_line = None           # optional callback(key, thread)
        self.clock_advances = 0
        self.last_advance_step = 0
        self.passthrough = False      # teardown: shims must not block
        self.step_watchdog_s = step_watchdog_s
        self._rr = 0
        self.loops = []               # SimLoops created in this world (vf/sim/loop.py)
        self.loop_log = []            # run-enter / run-exit / close events

    # ---- tracing -------------------------------------------------------
    def _trace(self, frame, event, arg):
        if frame.f_code.co_filename.endswith(self.trace_suffixes):
            return self._ltrace
        return None

    def _ltrace(self, frame, event, arg):
        if event == 'line':
            fn = frame.f_code.co_filename
            key = (fn[fn.rfind('/') + 1:], frame.f_lineno)
            self.seen_lines.add(key)
            if not self.passthrough:
                st = self.stalls
                if st:
                    # delay injection: the thread is descheduled for d virtual seconds right before this line
                    # (keyed by the step number this event would get, or by (file, line, n-th execution))
                    d = st.pop(self.steps + 1, None)
                    if d is None:
                        o = self.stall_hits.get(key, 0)
                        self.stall_hits[key] = o + 1
                        d = st.pop((key[0], key[1], o), None)
                    if d:
                        self.stalled += 1
                        self.block_until(lambda: False, d, what=('stall', d))
                self.yield_point(('line', key))
        return self._ltrace

    # ---- thread management --------------------------------------------
    def me(self):
        return getattr(self.tls, 'me', None)

    def spawn(self, fn, name=None, daemon=False):
        t = SimThread(self, fn, name or f't{len(self.threads)}', daemon, len(self.threads))
        self.threads.append(t)
        t.state = 'runnable'
        t.th.start()
        return t

    def _ready(self, t):
        if t.state == 'runnable':
            return True
        if t.state == 'blocked':
            if t.pred is not None and t.pred():
                return True
            if t.deadline is not None and t.deadline <= self.now:
                return True
        return False

    def _runnable(self):
        return [t for t in self.threads if self._ready(t)]

    def _all_main_done(self):
        return all(t.state == 'done' for t in self.threads if not t.daemon)

    def _pick(self, cur, info, must_switch=False):
        """Return the thread to run next (may be ``cur``) or None (finished/deadlock)."""
        while True:
            run = self._runnable()
            if run:
                break
            if self._all_main_done():
                self.finished = True
                return None
            dls = [t.deadline for t in self.threads
                   if t.state == 'blocked' and t.deadline is not None]
            if not dls:
                return None
            old = self.now
            new = min(dls)
            if new < old:
                new = old
            self.now = new
            self.clock_advances += 1
            self.last_advance_step = self.steps
            for cb in self.on_advance:
                cb(old, new)
        if self._all_main_done() and all(t.daemon for t in run):
            # only daemon threads could continue: the world is finished
            self.finished = True
            return None
        # order: current thread first (unless it must yield), the others
        # round-robin starting after the thread that ran last (fair default)
        base = cur.index if cur is not None else self._rr
        n = len(self.threads)
        run.sort(key=lambda t: (t.index - base - 1) % n)
        if cur is not None and cur in run:
            run.remove(cur)
            if must_switch and run:
                run.append(cur)
            else:
                run.insert(0, cur)
        if len(run) == 1:
            return run[0]
        self.decisions += 1
        if self.chooser is not None:
            t = self.chooser.choose(run, cur, info, self)
            if t is not None:
                return t
        return run[0]

    def _switch(self, cur, nxt):
        self._rr = nxt.index
        if nxt is cur:
            return
        nxt.go.release()
        if cur is not None:
            cur.go.acquire()
            if self.aborted:
                raise SimAbort

    def _wake(self, t):
        t.state = 'runnable'
        t.pred = None
        t.deadline = None
        t.blocked_on = None

    def yield_point(self, info=None, must_switch=False):
        cur = self.me()
        if cur is None or self.passthrough:
            return
        if self.aborted:
            raise SimAbort
        self.steps += 1
        cur.own_steps += 1
        if self.steps > self.max_steps:
            self._abort('step-bound')
        cur.state = 'runnable'
        nxt = self._pick(cur, info, must_switch)
        if nxt is None:
            self._abort(None if self.finished else 'deadlock')
        if nxt is not cur:
            self._wake(nxt)
            self._switch(cur, nxt)

    def block_until(self, pred, timeout=None, what=None):
        """Park the calling sim thread until pred() is true or the virtual
        timeout passes.  Returns pred()."""
        cur = self.me()
        if cur is None or self.passthrough:
            return pred()
        if self.aborted:
            raise SimAbort
        self.steps += 1
        cur.own_steps += 1
        if self.steps > self.max_steps:
            self._abort('step-bound')
        if pred():
            self.yield_point(('block-pass', what))
            return True
        if timeout is not None and timeout <= 0:
            self.yield_point(('block-nowait', what))
            return pred()
        cur.state = 'blocked'
        cur.pred = pred
        cur.deadline = None if timeout is None else self.now + timeout
        cur.blocked_on = what
        nxt = self._pick(cur, ('block', what))
        if nxt is None:
            self._abort(None if self.finished else 'deadlock')
        if nxt is cur:
            self._wake(cur)
            return pred()
        self._wake(nxt)
        self._switch(cur, nxt)
        return pred()

    def sleep(self, d):
        if self.me() is None or self.passthrough:
            return
        if d <= 0:
            cur = self.me()
            cur.spin += 1
            key = (self.steps - cur.own_steps, self.clock_advances)      # what the others and the clock have done so far
            again = key == cur.spin_key
            cur.spin_key = key
            if again and not any(self._ready(t) for t in self.threads if t is not cur) and \
                    any(t.state == 'blocked' and t.deadline is not None for t in self.threads):
                # A thread that comes back to sleep(0) although nothing has happened since its previous sleep(0)
                # (no other thread took a step, no time passed), while every other thread waits for time to pass:
                # in real time the spin takes time too.  Park the spinner until the virtual clock has advanced
                # (otherwise a runnable spinner would freeze the clock for ever).
                n0 = self.clock_advances
                self.block_until(lambda: self.clock_advances > n0, what=('spin-until-time-passes',))
                return
            self.yield_point(('sleep0',), must_switch=True)
        else:
            self.block_until(lambda: False, d, what=('sleep', d))

    def request_abort(self, why):
        """Called by a harness sim thread (e.g. horizon watchdog)."""
        self._abort('requested:' + why)

    def _stacks(self):
        out = []
        frames = sys._current_frames()
        for t in self.threads:
            if t.state == 'done':
                continue
            fr = frames.get(t.th.ident)
            stack = []
            if fr is not None:
                for fs in traceback.extract_stack(fr)[-14:]:
                    stack.append(f'{fs.filename.rsplit("/", 2)[-2]}/{fs.filename.rsplit("/", 1)[-1]}:{fs.lineno}:{fs.name}')
            out.append({'thread': t.name, 'state': t.state, 'daemon': t.daemon,
                        'blocked_on': repr(t.blocked_on), 'stack': stack})
        return out

    def _abort(self, why):
        if not self.aborted:
            self.aborted = True
            self.abort_reason = why
            if why is not None:
                try:
                    self.deadlock_report = self._stacks()
                except Exception:  # noqa
                    self.deadlock_report = []
        raise SimAbort

    def _handoff_from_dead(self, t):
        # runs in the dying thread, which still holds the turn
        if not self.aborted:
            nxt = self._pick(None, ('exit', t.name))
            if nxt is not None:
                self._wake(nxt)
                self._rr = nxt.index
                nxt.go.release()
                return
            self.aborted = True
            if not self.finished:
                self.abort_reason = 'deadlock'
                try:
                    self.deadlock_report = self._stacks()
                except Exception:  # noqa
                    self.deadlock_report = []
        alive = [x for x in self.threads if x.state != 'done']
        if alive:
            alive[0].go.release()
        else:
            self.main_done.release()

    def run(self, fns, names=None):
        """Spawn one non-daemon sim thread per callable and run the world to
        completion (or deadlock / abort).  Joins every thread."""
        for i, fn in enumerate(fns):
            self.spawn(fn, name=(names[i] if names else None))
        if not self.threads:
            return
        self.threads[0].go.release()
        # real-time watchdog: the code blocked on something we do not control
        last = -1
        while not self.main_done.acquire(timeout=self.step_watchdog_s):
            if self.steps == last:
                raise HarnessError(
                    'simulation made no step for %.0fs (blocked on an uncontrolled primitive?)\n%s'
                    % (self.step_watchdog_s, self._stacks()))
            last = self.steps
        for t in self.threads:
            t.th.join(self.step_watchdog_s)
            if t.th.is_alive():
                raise HarnessError('sim thread %s did not unwind' % t.name)


def wall():
    return _real_time.perf_counter()
