"""Schedule choosers and their Hypothesis strategies (DESIGN §2.5).

A schedule is plain JSON data:
  {"mode": "none"}
  {"mode": "sparse", "pre": [[decision_index, k], ...]}
  {"mode": "line",   "pre": [[file, line, occurrence, k], ...]}
  {"mode": "pct",    "prio": [...permutation...], "cps": [decision indices]}
  {"mode": "walk",   "walk": [small ints]}
``k`` selects among the runnable threads ordered [current, others in creation
order] (k mod n); k=0 keeps the current thread.
"""
from hypothesis import strategies as st


class Chooser:
    def __init__(self, sched):
        self.mode = sched.get('mode', 'none')
        self.sparse = {}
        self.line = {}
        self.walk = ()
        self.wi = 0
        self.prio = ()
        self.cps = []
        self.map = {}
        self.low = 0
        self.forced = 0     # decisions at which the schedule deviated from the default
        if self.mode == 'sparse':
            self.sparse = {int(i): int(k) for i, k in sched['pre']}
        elif self.mode == 'line':
            self.line = {(f, int(l), int(o)): int(k) for f, l, o, k in sched['pre']}
        elif self.mode == 'stall':
            # [[step, seconds]] or [[file, line, nth, seconds]]: delay injection, otherwise default scheduling
            self.stalls = {}
            for e in sched['at']:
                if len(e) == 2:
                    self.stalls[int(e[0])] = float(e[1])
                else:
                    self.stalls[(e[0], int(e[1]), int(e[2]))] = float(e[3])
        elif self.mode == 'pct':
            self.prio = list(sched['prio'])
            self.cps = sorted(int(c) for c in sched['cps'])
        elif self.mode == 'walk':
            self.walk = list(sched['walk'])

    def choose(self, run, cur, info, sim):
        mode = self.mode
        if mode in ('none', 'stall'):
            return None
        if mode == 'sparse':
            k = self.sparse.get(sim.decisions)
            if k is not None and k % len(run):
                self.forced += 1
                return run[k % len(run)]
            return None
        if mode == 'line':
            if info and info[0] == 'line':
                key = info[1]
                o = sim.line_hits.get(key, 0)
                sim.line_hits[key] = o + 1
                k = self.line.get((key[0], key[1], o))
                if k is not None and k % len(run):
                    self.forced += 1
                    return run[k % len(run)]
            return None
        if mode == 'walk':
            if self.wi < len(self.walk):
                k = self.walk[self.wi]
                self.wi += 1
                if k % len(run):
                    self.forced += 1
                return run[k % len(run)]
            return None
        if mode == 'pct':
            for t in sim.threads:
                if t not in self.map:
                    self.map[t] = self.prio[len(self.map) % len(self.prio)]
            while self.cps and sim.decisions >= self.cps[0]:
                self.cps.pop(0)
                if cur is not None:
                    self.low -= 1
                    self.map[cur] = self.low
            if info and info[0] == 'sleep0' and cur is not None:
                # a spinning thread yields: standard PCT treatment, drop it
                self.low -= 1
                self.map[cur] = self.low
            best = max(run, key=lambda t: self.map[t])
            if best is not run[0]:
                self.forced += 1
            return best
        return None


def schedule_strategy(max_decision=600, lines=(), nthreads=4, walk_len=200,
                      modes=('sparse', 'line', 'pct', 'walk', 'none')):
    """Hypothesis strategy for schedules.  ``lines`` is the list of
    [file, line] pairs the current working tree executes for this program
    family (read from a dry run, never hard-coded)."""
    k = st.integers(1, max(1, nthreads - 1))
    opts = []
    if 'none' in modes:
        opts.append(st.just({'mode': 'none'}))
    if 'sparse' in modes:
        opts.append(st.fixed_dictionaries({
            'mode': st.just('sparse'),
            'pre': st.lists(st.tuples(st.integers(0, max_decision), k).map(list),
                            min_size=1, max_size=4)}))
    if 'line' in modes and lines:
        opts.append(st.fixed_dictionaries({
            'mode': st.just('line'),
            'pre': st.lists(st.tuples(st.sampled_from(list(lines)), st.integers(0, 3), k)
                            .map(lambda x: [x[0][0], x[0][1], x[1], x[2]]),
                            min_size=1, max_size=3)}))
    if 'stall' in modes and lines:
        opts.append(st.fixed_dictionaries({
            'mode': st.just('stall'),
            'at': st.lists(st.tuples(st.sampled_from(list(lines)), st.integers(0, 3), st.sampled_from([1 / 64, 1 / 8, 0.75, 3.0]))
                           .map(lambda x: [x[0][0], x[0][1], x[1], x[2]]), min_size=1, max_size=2)}))
    if 'pct' in modes:
        opts.append(st.fixed_dictionaries({
            'mode': st.just('pct'),
            'prio': st.permutations(list(range(8))),
            'cps': st.lists(st.integers(0, max_decision), max_size=3)}))
    if 'walk' in modes:
        opts.append(st.integers(walk_len // 4, walk_len).flatmap(
            lambda n: st.fixed_dictionaries({
                'mode': st.just('walk'),
                'walk': st.lists(st.sampled_from([0, 0, 0, 0, 0, 0, 1, 2, 3]),
                                 min_size=n, max_size=n)})))
    return st.one_of(*opts)


def schedule_valid(s):
    if not isinstance(s, dict):
        return False
    m = s.get('mode')
    if m == 'none':
        return True
    if m == 'sparse':
        return all(isinstance(e, list) and len(e) == 2 for e in s.get('pre', [0]))
    if m == 'line':
        return all(isinstance(e, list) and len(e) == 4 and isinstance(e[0], str) for e in s.get('pre', [0]))
    if m == 'pct':
        return bool(s.get('prio')) and isinstance(s.get('cps'), list)
    if m == 'walk':
        return isinstance(s.get('walk'), list)
    if m == 'stall':
        return all(isinstance(e, list) and len(e) in (2, 4) and e[-1] > 0 for e in s.get('at', [0]))
    return False
