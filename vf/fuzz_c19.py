"""atheris target for C19: libFuzzer bytes -> Hypothesis case (fuzz_one_input of the
same strategy) -> same oracle.  A second, raw mode feeds the bytes as text straight
to parse_to_dict with the tripwire + 'never crashes except ValueError' oracle.
Stats are written to $C19_FUZZ_OUT/stats.json every 2000 executions (atexit does
not run under libFuzzer)."""
import json
import os
import sys

sys.path.insert(0, os.environ.get('VERIF_REPO', '/repo'))
import atheris  # noqa: E402

with atheris.instrument_imports(include=['aiuti.parsing']):
    from aiuti import parsing  # noqa: F401

from hypothesis import given, settings, HealthCheck, Phase  # noqa: E402
from vf.props import c19  # noqa: E402

OUT = os.environ['C19_FUZZ_OUT']
stat = {'execs': 0, 'valid': 0, 'nontrivial': 0, 'raw_execs': 0}
state = {}


@settings(database=None, deadline=None, suppress_health_check=list(HealthCheck), phases=[Phase.generate])
@given(c19.strategy('thorough'))
def hyp_target(case):
    stat['valid'] += 1
    res = c19.run_case(case)
    if res.nontrivial:
        stat['nontrivial'] += 1
    if res.violations:
        json.dump({'case': case, 'violations': res.violations},
                  open(os.path.join(OUT, 'violation.json'), 'w'), default=repr)
        raise AssertionError(res.violations[0]['msg'])


def raw_target(data):
    """Raw text straight into the parser: must return a dict or raise ValueError
    (no separator); the tripwire must stay silent."""
    import builtins
    fdp = atheris.FuzzedDataProvider(data)
    sep = fdp.PickValueInList(['=', ':', '->'])
    n = fdp.ConsumeIntInRange(1, 3)
    items = [fdp.ConsumeUnicodeNoSurrogates(48) for _ in range(n)]
    trip = c19.Tripwire()
    setattr(builtins, c19.TRIP, trip)
    try:
        try:
            r = parsing.parse_to_dict([i.replace('T', c19.TRIP) for i in items], sep=sep)
        except ValueError:
            return
        except TypeError:      # unhashable literal key: statement is silent
            return
        assert isinstance(r, dict)
        assert not trip.log, trip.log
    finally:
        delattr(builtins, c19.TRIP)


def one(data):
    stat['execs'] += 1
    if stat['execs'] % 2000 == 0:
        json.dump(stat, open(os.path.join(OUT, 'stats.json'), 'w'))
    if data[:1] == b'\x00':
        stat['raw_execs'] += 1
        raw_target(data[1:])
    else:
        hyp_target.hypothesis.fuzz_one_input(data)


def main():
    cdir = sys.argv[-1]
    if os.environ.get('C19_CORPUS_KIND') == 'doctest' and os.path.isdir(cdir):
        for i, s in enumerate(['a=1', '2="b"', '"b"=1.4', 'a:1', '2:"b"', 'a=b=c', "x='=='"]):
            open(os.path.join(cdir, 'seed%d' % i), 'wb').write(b'\x00\x00\x01' + s.encode())
    atheris.Setup(sys.argv, one)
    atheris.Fuzz()


if __name__ == '__main__':
    main()
