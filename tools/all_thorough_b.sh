#!/bin/sh
# Second half of the thorough sweep.
cd "$(dirname "$0")/.." || exit 2
for p in C06 C15 C10 C11 C09 C19 C20 C18; do
  VERIF_SEED=${VERIF_SEED:-31} ./check $p thorough | grep -v "^KNOWN-FINDING" | cut -c1-400
done
