#!/venv/bin/python
"""Generates MANIFEST.json from the property modules that exist (vf/props/cXX.py).
Properties without a module are listed under not_applicable with the reason
given in NOT_YET below (kept current by hand)."""
import importlib, json, os, sys
ROOT = os.path.dirname(os.path.dirname(os.path.abspath(__file__)))
sys.path.insert(0, ROOT); sys.path.insert(0, '/repo')
ids = [json.loads(l)['id'] for l in open(os.path.join(ROOT, 'properties.jsonl'))]
NOT_YET = 'check not built yet in this round (planned in DESIGN.md section 3); no claim is made'
def _enum_note(m):
    cfg = getattr(m, 'CORPUS_PREEMPTIONS', None)
    if cfg is None:
        return ''
    t = ('; bounded schedule enumeration around the regression corpus (every single forced thread switch in the quick tier, '
         'every pair within 12 decisions in the thorough tier')
    if cfg.get('stalls'):
        t += '; every single delay injection of %s virtual seconds' % '/'.join(map(str, cfg['stalls']))
    if cfg.get('stagger'):
        t += '; staggered delays of two threads at one source line'
    return t + ')'


checks, na = [], []
for pid in ids:
    p = os.path.join(ROOT, 'vf', 'props', pid.lower() + '.py')
    if not os.path.exists(p):
        na.append({'property_id': pid, 'reason': NOT_YET}); continue
    m = importlib.import_module('vf.props.' + pid.lower())
    checks.append({
        'property_id': pid,
        'quick_cmd': f'./check {pid} quick',
        'thorough_cmd': f'./check {pid} thorough',
        'evidence_file': f'/verif/evidence/{pid}.json',
        'replay_cmd_template': './check --replay {path}',
        'engine': getattr(m, 'ENGINE', 'vf'),
        'level_claimed': {'category': m.LEVEL, 'text': m.LEVEL_TEXT if hasattr(m, 'LEVEL_TEXT') else m.RULE,
                          'design_ref': 'DESIGN.md section 3, ' + pid},
        'level_note': '; '.join(m.ASSUMPTIONS),
        'technique': m.TECHNIQUE + _enum_note(m),
    })
man = {
    'version': 1,
    'setup_cmd': './setup.sh',
    'hooks': {'guard': 'AIUTI_VERIF', 'enable': 'none needed: all instrumentation is done from the harness process (module-global rebinding, sys.settrace); the guard is unused',
              'baseline_off_cmd': 'cd /repo && /venv/bin/python -m pytest -ra -q -p no:cacheprovider --timeout=900 --continue-on-collection-errors',
              'source_commits': [], 'add_only': True},
    'engines': [{'name': 'vf', 'path': '/verif/vf', 'serves_properties': [c['property_id'] for c in checks],
                 'kind_free_text': 'Hypothesis-driven generated search over case dicts (programs x schedules x faults) executed against the unmodified Aiuti code under a deterministic simulation kernel (one-at-a-time real threads, line-level scheduling points, virtual time, cooperative shims); explicit oracles per property'}],
    'checks': checks,
    'not_applicable': na,
    'notes': 'Exit codes: 0 held (maybe KNOWN-FINDING lines), 1 VIOLATION, 2 harness error. VERIF_SEED selects the Hypothesis seed (seed*1000+shard).',
}
json.dump(man, open(os.path.join(ROOT, 'MANIFEST.json'), 'w'), indent=1)
print(len(checks), 'checks,', len(na), 'not claimed')
