#!/venv/bin/python
"""Sensitivity harness (DESIGN §2.12): apply each planted mutant to a scratch
copy of /repo (outside /repo and /verif), optionally run the repository's own
test suite on it, run the property's check against it via VERIF_REPO, delete
the copy.  Usage: tools/run_mutants.py <ID> [--tests] [--tier quick] [--only name]
Mutants live in tools/mutants/<id>.py as MUTANTS = [(name, file, old, new, expect)]
with expect in {'kill', 'survive'} ('survive' = negative control)."""
import importlib.util, json, os, shutil, subprocess, sys, tempfile, time

ROOT = os.path.dirname(os.path.dirname(os.path.abspath(__file__)))


def load(pid):
    p = os.path.join(ROOT, 'tools', 'mutants', pid.lower() + '.py')
    spec = importlib.util.spec_from_file_location('m', p)
    m = importlib.util.module_from_spec(spec)
    spec.loader.exec_module(m)
    return m.MUTANTS


def _run_tests(d):
    try:
        r = subprocess.run(['/venv/bin/python', '-m', 'pytest', '-q', '-x', '-p', 'no:cacheprovider',
                            '--timeout=120', '--deselect', 'aiuti/asyncio.py::aiuti.asyncio.to_async_iter',
                            '--deselect', 'aiuti/asyncio.py::aiuti.asyncio.to_sync_iter'],
                           cwd=d, capture_output=True, text=True, timeout=240)
    except subprocess.TimeoutExpired:
        return 'TESTS-HANG'
    return 'tests-pass' if r.returncode == 0 else 'TESTS-FAIL'


def main():
    pid = sys.argv[1].upper()
    tier = 'quick'
    tests = '--tests' in sys.argv
    only = None
    if '--tier' in sys.argv:
        tier = sys.argv[sys.argv.index('--tier') + 1]
    if '--only' in sys.argv:
        only = sys.argv[sys.argv.index('--only') + 1]
    rows = []
    for name, file, old, new, expect in load(pid):
        if only and name != only:
            continue
        d = tempfile.mkdtemp(prefix='mut_', dir='/tmp')
        try:
            subprocess.check_call(['rsync', '-a', '--exclude', '.git', '/repo/', d + '/'])
            p = os.path.join(d, file)
            s = open(p).read()
            if s.count(old) != 1:
                rows.append((name, 'BAD-MUTANT(old occurs %d times)' % s.count(old), '', ''))
                continue
            open(p, 'w').write(s.replace(old, new))
            tres = ''
            if tests:
                tres = _run_tests(d)
            t0 = time.time()
            env = dict(os.environ, VERIF_REPO=d)
            r = subprocess.run([os.path.join(ROOT, 'check'), pid, tier], capture_output=True, text=True, env=env)
            kinds = sorted({l.split('sig=')[1].split()[0] for l in r.stdout.splitlines() if l.strip().startswith('kind=')})
            verdict = {0: 'survived', 1: 'KILLED', 2: 'HARNESS-ERROR'}.get(r.returncode, str(r.returncode))
            ok = (verdict == 'KILLED') == (expect == 'kill') and verdict != 'HARNESS-ERROR'
            rows.append((name, verdict + ('' if ok else '  <<< UNEXPECTED'), tres, '%.0fs %s' % (time.time() - t0, ','.join(kinds)[:150])))
            if verdict == 'HARNESS-ERROR':
                print(r.stdout[-3000:])
        finally:
            shutil.rmtree(d, ignore_errors=True)
    for r in rows:
        print('%-42s %-26s %-11s %s' % r)


main()
