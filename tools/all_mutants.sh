#!/bin/sh
# Runs every planted mutant suite (no repository tests) and prints only unexpected outcomes plus a count per property.
cd "$(dirname "$0")/.." || exit 2
for p in C20 C18 C19 C14 C12 C04 C10 C11 C09 C08 C03 C07 C16 C17 C02 C15 C13; do
  out=$(tools/run_mutants.py $p 2>&1)
  n=$(echo "$out" | grep -c -E "KILLED|survived")
  bad=$(echo "$out" | grep -E "UNEXPECTED|HARNESS|BAD-MUTANT")
  echo "$p: $n mutants; unexpected: $(echo "$bad" | grep -c .)"
  [ -n "$bad" ] && echo "$bad" | cut -c1-200
done
