#!/bin/sh
# Runs every thorough check once (background sanity sweep: must be quiet on the unchanged tree).
cd "$(dirname "$0")/.." || exit 2
for p in C20 C18 C19 C14 C13 C12 C04 C10 C11 C09 C08 C03 C07 C16 C17 C02 C15 C01 C05 C06; do
  VERIF_SEED=${VERIF_SEED:-11} ./check $p thorough | grep -v "^KNOWN-FINDING" | cut -c1-400
done
