#!/bin/sh
# tools/try_patch.sh <patch.diff> <ID> [tier]: run one check against a scratch copy of /repo with the patch applied
set -e
d=$(mktemp -d /tmp/try_XXXXXX)
rsync -a --exclude .git --exclude 'seed_out*' /repo/ "$d/"
(cd "$d" && patch -p1 -s -i "$1")
VERIF_REPO="$d" /verif/check "$2" "${3:-quick}" | grep -v '^KNOWN' | tail -4 | cut -c1-400 || true
rm -rf "$d"
