#!/venv/bin/python
"""Regenerate the table of seeded changes in DESIGN.md (between the seeded-table markers) from seeded/*/meta.json and
seeded/RESULTS.json (written by `tools/seeded.py run`)."""
import json, os, re

ROOT = os.path.dirname(os.path.dirname(os.path.abspath(__file__)))
B, E = '<!-- seeded-table:begin -->', '<!-- seeded-table:end -->'


def cell(s, n):
    s = re.sub(r'\s+', ' ', str(s or '')).replace('|', '/')
    return s if len(s) <= n else s[:n - 1] + '…'


def main():
    sd = os.path.join(ROOT, 'seeded')
    res = json.load(open(os.path.join(sd, 'RESULTS.json')))
    rows = []
    caught = missed = obsolete = outside = 0
    for n in sorted(x for x in os.listdir(sd) if os.path.isdir(os.path.join(sd, x))):
        meta = json.load(open(os.path.join(sd, n, 'meta.json')))
        pid = meta['property']
        if meta.get('obsolete'):
            obsolete += 1
            rows.append((n, cell(meta.get('summary'), 150), 'obsolete: ' + cell(meta['obsolete'], 90), ''))
            continue
        r = res.get(n, {}).get('checks', {})
        own = r.get(pid)
        if own is None:
            rows.append((n, cell(meta.get('summary'), 150), 'not run', ''))
            continue
        if own['verdict'] == 'CAUGHT':
            caught += 1
        elif meta.get('note'):
            outside += 1
        else:
            missed += 1
        others = sorted(p for p, v in r.items() if p != pid and v['verdict'] == 'CAUGHT')
        rows.append((n, cell(meta.get('summary'), 150),
                     ('%s quick: ' % pid) + (', '.join('`%s`' % s for s in own['signatures'][:3]) if own['verdict'] == 'CAUGHT'
                                             else ('quiet by design: ' + cell(meta['note'], 160)) if meta.get('note')
                                             else '**' + own['verdict'] + '**'), ', '.join(others)))
    out = [B, '', '%d stored changes: %d caught by the check of their own property in the quick tier, %d missed, %d not a violation of '
           'the property they were filed under (caught by the check of the property they do violate), %d obsolete '
           '(indistinguishable from the repaired tree).' % (len(rows), caught, missed, outside, obsolete), '',
           '| change | what it does (sub-agent\'s summary) | own check | also caught by |', '|---|---|---|---|']
    out += ['| %s | %s | %s | %s |' % r for r in rows]
    out += ['', E]
    p = os.path.join(ROOT, 'DESIGN.md')
    s = open(p).read()
    if B in s:
        s = s[:s.index(B)] + '\n'.join(out) + s[s.index(E) + len(E):]
    else:
        s = s.replace('SEEDED_TABLE_PLACEHOLDER', '\n'.join(out))
    open(p, 'w').write(s)
    print('%d rows, %d caught, %d missed, %d outside, %d obsolete' % (len(rows), caught, missed, outside, obsolete))


if __name__ == '__main__':
    main()
