#!/bin/sh
# First half of the thorough sweep (the checks whose machinery changed most recently first).
cd "$(dirname "$0")/.." || exit 2
for p in C17 C07 C03 C08 C04 C01 C16 C02 C14 C13 C12 C05; do
  VERIF_SEED=${VERIF_SEED:-31} ./check $p thorough | grep -v "^KNOWN-FINDING" | cut -c1-400
done
