#!/venv/bin/python
"""Seeded changes (written by independent sub-agents, confirmed here).

  tools/seeded.py import <worktree> <name> [--second]   confirm a sub-agent's change and store it as seeded/<name>/
  tools/seeded.py run [<name> ...] [--all-checks] [--tier quick]   run the checks against stored changes (scratch copy of /repo)

Confirmation = (1) repo tests pass with the change, (2) the demonstration fails with it, (3) passes without it.
All work happens in scratch copies under /tmp, removed afterwards; /repo is never touched."""
import json, os, re, shutil, subprocess, sys, tempfile, time

ROOT = os.path.dirname(os.path.dirname(os.path.abspath(__file__)))
PYT = ['/venv/bin/python', '-m', 'pytest', '-q', '-p', 'no:cacheprovider', '--timeout=300',
       '--deselect', 'aiuti/asyncio.py::aiuti.asyncio.to_async_iter', '--deselect', 'aiuti/asyncio.py::aiuti.asyncio.to_sync_iter']


def scratch(patch=None):
    d = tempfile.mkdtemp(prefix='seeded_', dir='/tmp')
    subprocess.check_call(['rsync', '-a', '--exclude', '.git', '--exclude', 'seed_out*', '/repo/', d + '/'])
    if patch:
        r = subprocess.run(['patch', '-p1', '-s', '-i', patch], cwd=d, capture_output=True, text=True)
        if r.returncode:
            shutil.rmtree(d, ignore_errors=True)
            raise SystemExit('patch does not apply to /repo: ' + r.stdout + r.stderr)
    return d


def run_demo(demo, repo_dir):
    env = dict(os.environ, VERIF_REPO=repo_dir, PYTHONDONTWRITEBYTECODE='1')
    try:
        r = subprocess.run(['/venv/bin/python', demo], capture_output=True, text=True, env=env, timeout=180, cwd=repo_dir)
        return r.returncode, (r.stdout + r.stderr)[-1500:]
    except subprocess.TimeoutExpired:
        return 'timeout', ''


# checks that exercise the same component (for the cross-check sweep)
GROUPS = [['C01', 'C05', 'C06', 'C14', 'C15'], ['C03', 'C07', 'C08', 'C15', 'C16'], ['C04', 'C09', 'C10', 'C11', 'C15'],
          ['C02', 'C12', 'C13'], ['C17', 'C07'], ['C16', 'C03']]


def do_import(wt, name, second=False):
    src = os.path.join(wt, 'seed_out2' if second else 'seed_out')
    dst = os.path.join(ROOT, 'seeded', name)
    os.makedirs(dst, exist_ok=True)
    meta = json.load(open(os.path.join(src, 'meta.json')))
    shutil.copy(os.path.join(src, 'patch.diff'), os.path.join(dst, 'patch.diff'))
    demo = open(os.path.join(src, 'demo.py')).read()
    # the demonstration imported the library from the sub-agent's worktree: make that a parameter
    demo = demo.replace("'" + wt + "'", "__import__('os').environ.get('VERIF_REPO', '/repo')")
    demo = demo.replace('"' + wt + '"', "__import__('os').environ.get('VERIF_REPO', '/repo')")
    if wt in demo:
        demo = demo.replace(wt, '/repo')
        print('warning: worktree path occurred in an unexpected form; replaced by /repo')
    open(os.path.join(dst, 'demo.py'), 'w').write(demo)
    patch = os.path.join(dst, 'patch.diff')
    with_ = scratch(patch)
    without = scratch()
    try:
        t = subprocess.run(PYT, cwd=with_, capture_output=True, text=True, timeout=900)
        tests_ok = t.returncode == 0
        rc_with, out_with = run_demo(os.path.join(dst, 'demo.py'), with_)
        rc_without, out_without = run_demo(os.path.join(dst, 'demo.py'), without)
    finally:
        shutil.rmtree(with_, ignore_errors=True)
        shutil.rmtree(without, ignore_errors=True)
    confirmed = tests_ok and rc_with not in (0, 'timeout') and rc_without == 0
    meta_out = {'property': meta.get('property'), 'summary': meta.get('summary'), 'needs': meta.get('needs'),
                'origin': 'independent sub-agent given only the property text and a scratch worktree',
                'confirmed_here': {'repo_tests_pass_with_change': tests_ok, 'demo_exit_with_change': rc_with,
                                   'demo_exit_without_change': rc_without,
                                   'ran': [' '.join(PYT), 'VERIF_REPO=<scratch copy> /venv/bin/python demo.py  (with and without patch)']},
                'confirmed': confirmed}
    json.dump(meta_out, open(os.path.join(dst, 'meta.json'), 'w'), indent=1)
    print(name, 'CONFIRMED' if confirmed else 'NOT CONFIRMED', json.dumps(meta_out['confirmed_here']))
    if not confirmed:
        print('--- demo with change:\n', out_with[-600:], '\n--- demo without change:\n', out_without[-600:],
              '\n--- tests:\n', t.stdout[-600:])
    return confirmed


def harvest_corpus(name, pid, limit=3):
    """Keep the (shrunk) cases that exposed this change as regression cases - they must pass on /repo itself."""
    import glob
    sys.path.insert(0, ROOT)
    sys.path.insert(0, '/repo')
    from vf.runner import load_prop
    mod = load_prop(pid)
    files = sorted(glob.glob(os.path.join(ROOT, 'replays', pid + '-*.json')), key=os.path.getmtime, reverse=True)
    kept = 0
    seen = set()
    for f in files:
        if time.time() - os.path.getmtime(f) > 600:
            break
        doc = json.load(open(f))
        sig = doc['violation']['sig']
        if sig in seen or 'case' not in doc or len(json.dumps(doc['case'])) > 6000:
            continue
        try:
            res = mod.run_case(doc['case'])
        except Exception:  # noqa
            continue
        if res.violations:
            continue        # not quiet on the real tree (e.g. a known finding): not a regression case
        seen.add(sig)
        d = os.path.join(ROOT, 'corpus', pid)
        os.makedirs(d, exist_ok=True)
        out = os.path.join(d, 'seeded-%s-%s.json' % (name, ''.join(ch if ch.isalnum() else '-' for ch in sig)[:40]))
        json.dump({'note': 'exposed the independently seeded change %s (signature %s); passes on the repaired tree' % (name, sig),
                   'case': doc['case']}, open(out, 'w'), indent=1)
        kept += 1
        if kept >= limit:
            break
    return kept


def do_run(names, all_checks=False, tier='quick', harvest=False):
    sd = os.path.join(ROOT, 'seeded')
    names = names or sorted(n for n in os.listdir(sd) if os.path.exists(os.path.join(sd, n, 'patch.diff')))
    ids = [json.loads(l)['id'] for l in open(os.path.join(ROOT, 'properties.jsonl'))]
    rows = []
    rp = os.path.join(ROOT, 'seeded', 'RESULTS.json')
    results = json.load(open(rp)) if os.path.exists(rp) else {}
    for n in names:
        meta = json.load(open(os.path.join(sd, n, 'meta.json')))
        if meta.get('obsolete') or meta.get('confirmed') is False:
            print('%-28s %-4s %-14s %s' % (n, meta['property'], 'obsolete', (meta.get('obsolete') or 'not confirmed')[:100]), flush=True)
            continue
        try:
            d = scratch(os.path.join(sd, n, 'patch.diff'))
        except SystemExit as e:
            print('%-28s %-4s %-14s %s' % (n, meta['property'], 'PATCH-FAILS', str(e)[:100]), flush=True)
            continue
        try:
            res = {}
            group = next((g for g in GROUPS if meta['property'] in g), [meta['property']])
            for pid in (ids if all_checks == 'all' else group if all_checks == 'group' else [meta['property']]):
                t0 = time.time()
                r = subprocess.run([os.path.join(ROOT, 'check'), pid, tier], capture_output=True, text=True,
                                   env=dict(os.environ, VERIF_REPO=d))
                sigs = sorted({l.split('sig=')[1].split()[0] for l in r.stdout.splitlines() if l.strip().startswith('kind=')})
                res[pid] = ({0: 'quiet', 1: 'CAUGHT', 2: 'HARNESS-ERROR'}.get(r.returncode, r.returncode), sigs, round(time.time() - t0))
                if r.returncode == 2:
                    print(r.stdout[-1500:])
        finally:
            shutil.rmtree(d, ignore_errors=True)
        if harvest and res[meta['property']][0] == 'CAUGHT':
            harvest_corpus(n, meta['property'])
        own = res[meta['property']]
        others = [p for p, v in res.items() if v[0] == 'CAUGHT' and p != meta['property']]
        rows.append((n, meta['property'], own[0], ','.join(own[1])[:90], ','.join(others)))
        results[n] = {'property': meta['property'], 'summary': meta.get('summary'), 'needs': meta.get('needs'),
                      'checks': {p_: {'verdict': v[0], 'signatures': v[1]} for p_, v in res.items()}}
        json.dump(results, open(os.path.join(ROOT, 'seeded', 'RESULTS.json'), 'w'), indent=1)
        print('%-28s %-4s %-14s %-90s also:%s' % rows[-1], flush=True)
    return rows


if __name__ == '__main__':
    a = sys.argv[1:]
    if a and a[0] == 'import':
        sys.exit(0 if do_import(a[1].rstrip('/'), a[2], '--second' in a) else 1)
    elif a and a[0] == 'import-wave':
        # tools/seeded.py import-wave <dir with CXX worktrees> <suffix1> <suffix2>
        base, s1, s2 = a[1].rstrip('/'), a[2], a[3]
        names = []
        for pid in sorted(d for d in os.listdir(base) if os.path.isdir(os.path.join(base, d, 'seed_out'))):
            for sub, suf, second in (('seed_out', s1, False), ('seed_out2', s2, True)):
                if os.path.exists(os.path.join(base, pid, sub, 'patch.diff')) and os.path.getsize(os.path.join(base, pid, sub, 'patch.diff')):
                    try:
                        if do_import(os.path.join(base, pid), '%s-%s' % (pid, suf), second):
                            names.append('%s-%s' % (pid, suf))
                    except SystemExit as e:
                        print(pid, suf, 'IMPORT FAILED', e)
                    except Exception as e:  # noqa
                        print(pid, suf, 'IMPORT ERROR', repr(e)[:200])
        print('confirmed:', ' '.join(names))
    elif a and a[0] == 'run':
        tier = a[a.index('--tier') + 1] if '--tier' in a else 'quick'
        names = [x for x in a[1:] if not x.startswith('--') and x != tier]
        do_run(names, 'all' if '--all-checks' in a else 'group' if '--group' in a else False, tier, '--harvest' in a)
    else:
        print(__doc__)
