#!/venv/bin/python
"""Real loop, real time: finding #4 (C07).  asyncio.run() of a program that
submitted one argument to a buffer_until_timeout wrapper and returns while the
quiet timer is still armed never returns: the cancellation of the background
task is taken for 'flush now' and swallowed.  Exit 1 if reproduced."""
import asyncio as aio, os, sys, threading
sys.path.insert(0, os.environ.get('VERIF_REPO', '/repo'))
from aiuti.asyncio import buffer_until_timeout

done = threading.Event()
seen = []


def prog():
    async def main():
        @buffer_until_timeout(timeout=0.5)
        async def f(xs):
            seen.append(sorted(xs))
        f(1)
        await aio.sleep(0.1)      # return while the 0.5 s quiet timer is armed
    aio.run(main())
    done.set()


t = threading.Thread(target=prog, daemon=True)
t.start()
ok = done.wait(3.0)
print('asyncio.run returned:', ok, ' function calls seen:', seen)
print('not reproduced' if ok else 'REPRODUCED (asyncio.run still blocked after 3 s)')
os._exit(0 if ok else 1)
