#!/venv/bin/python
"""Real threads: finding #5 (C12).  A reentrant FileLock acquired twice and then
released with force=True reports is_locked False, yet its internal RLock is still
held by the releasing thread: no other thread can ever acquire that object again.
Exit 1 if reproduced."""
import os, sys, tempfile, threading
sys.path.insert(0, os.environ.get('VERIF_REPO', '/repo'))
from aiuti.filelock import FileLock

path = os.path.join(tempfile.mkdtemp(), 'l')
lock = FileLock(path, reentrant=True)
assert lock.acquire() and lock.acquire()
lock.release(force=True)
print('is_locked after release(force=True):', lock.is_locked)
res = {}
t = threading.Thread(target=lambda: res.setdefault('ok', lock.acquire(timeout=0.5)))
t.start(); t.join()
print('another thread acquiring the same object (timeout 0.5 s):', res['ok'])
bad = not res['ok']
print('REPRODUCED' if bad else 'not reproduced')
sys.exit(1 if bad else 0)
