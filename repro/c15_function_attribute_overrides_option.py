"""C15/C08: a wrapped function that carries an attribute called `timeout` replaced the option given to buffer_until_timeout
(functools.wraps merged the function's __dict__ into the BufferAsyncCalls instance).  Exit 0: the option takes effect.
"""
import asyncio, sys
sys.path.insert(0, __import__('os').environ.get('VERIF_REPO', '/repo'))
from aiuti.asyncio import buffer_until_timeout, BufferAsyncCalls
calls = []
async def f(xs):
    calls.append((asyncio.get_running_loop().time(), sorted(xs)))
f.timeout = 30          # an attribute the application keeps on its function
async def main():
    loop = asyncio.get_running_loop()
    b = buffer_until_timeout(f, timeout=0.1)
    print('configured 0.1, effective:', b.timeout, type(b).__name__)
    t0 = loop.time()
    b(1)
    await asyncio.sleep(0.5)
    print('calls after 0.5 s:', [(round(t - t0, 2), a) for t, a in calls])
asyncio.run(main())
sys.exit(0 if calls and abs(calls[0][0] - 0) >= 0 and len(calls) == 1 else 1)
