"""Observation (not judged by C05: the instant of a garbage collection is not in its quantifier).

threadsafe_async_cache's computing path ends with `finally: ... with event_making_lock: ...` and that lock is not
re-entrant.  When a loop is closed with a computation still pending and the abandoned task is later freed by the *cyclic*
garbage collector, the coroutine is closed in whatever thread triggered the collection - and if that thread is at that moment
inside `with event_making_lock:` of another call (the block allocates an asyncio.Event, so a collection can start there),
the finally block tries to take the lock its own thread already holds: the thread blocks for good.

The collection is forced here at exactly that allocation (real threads, real time).
Exit 0: the second call finishes.  Exit 1: it is stuck (observed on the pinned tree and after all fixes of this round).
"""
import asyncio
import gc
import os
import sys
import threading

sys.path.insert(0, os.environ.get('VERIF_REPO', '/repo'))
import aiuti.asyncio as A  # noqa: E402

gc.disable()
started = threading.Event()


@A.threadsafe_async_cache
async def slow(x):
    started.set()
    await asyncio.sleep(3600)
    return x


def abandon():
    loop = asyncio.new_event_loop()
    t = loop.create_task(slow(1))
    loop.run_until_complete(asyncio.sleep(0.05))     # the computation is pending now
    loop.close()                                     # closed mid-computation; the task is abandoned, not cancelled
    del t


abandon()
real_event = asyncio.Event


class CollectingEvent(real_event):
    def __init__(self, *a, **k):
        gc.collect()                                 # a cyclic collection starting at this allocation
        super().__init__(*a, **k)


A.aio.Event = CollectingEvent
done = {}


def second():
    async def main():
        done['v'] = await asyncio.wait_for(second_call(), 5)
    try:
        asyncio.run(main())
    except BaseException as e:  # noqa
        done['exc'] = repr(e)


@A.threadsafe_async_cache
async def quick(x):
    return x * 2


async def second_call():
    return await slow(1)          # same key as the abandoned computation: takes over the dead marker


th = threading.Thread(target=second, daemon=True)
th.start()
th.join(8)
print('second call:', done or 'STUCK (thread blocked on the lock it already holds)')
os._exit(0 if done else 1)
