"""C04: a batch function that yields a StopIteration instance as the result for a key.

"a yielded Exception instance is raised" / "every call completes".  Real asyncio, real time.
Exit 0: the caller's call ends with an exception that is (or is caused by) the yielded instance.
Exit 1: it returns a value, hangs, or takes the other callers of the batch down with it.
"""
import asyncio
import os
import sys

sys.path.insert(0, os.environ.get('VERIF_REPO', '/repo'))
from aiuti.asyncio import AsyncBackgroundBatcher  # noqa: E402

STOP = StopIteration('payload')


async def batch(items):
    for key, arg in items:
        yield key, (STOP if arg == 1 else arg * 10)


async def one(b, x, out):
    try:
        out[x] = ('ok', await asyncio.wait_for(b(x), 3))
    except BaseException as e:  # noqa
        out[x] = ('exc', e)


async def main():
    b = AsyncBackgroundBatcher(batch, batch_timeout=0.05)
    out = {}
    await asyncio.gather(one(b, 1, out), one(b, 2, out), one(b, 3, out))
    return out


out = asyncio.run(main())
print(out)
bad = []
k, v = out[1]
if not (k == 'exc' and (v is STOP or (isinstance(v, RuntimeError) and (v.__cause__ is STOP or v.__context__ is STOP)))):
    bad.append('caller of key 1 ended with %s %r instead of the yielded exception' % (k, v))
for x in (2, 3):
    if out[x] != ('ok', x * 10):
        bad.append('caller of key %d ended with %r' % (x, out[x]))
for b_ in bad:
    print('DEFECT:', b_)
sys.exit(1 if bad else 0)
