#!/venv/bin/python
"""Real threads, real time: finding #2 (C06).  A caller on loop B waits (through
the cross-loop proxy) for a computation on loop A.  A's asyncio.run() returns
and cancels its leftovers, including B's proxy wait; B's caller receives
CancelledError although nobody cancelled B's task.  Exit 1 if reproduced."""
import asyncio as aio, sys, threading, time
sys.path.insert(0, __import__('os').environ.get('VERIF_REPO', '/repo'))
from aiuti.asyncio import threadsafe_async_cache

calls = []


@threadsafe_async_cache
async def f(k):
    calls.append(threading.current_thread().name)
    await aio.sleep(0.5)
    return len(calls)


out = {}


def thread_a():
    async def main():
        aio.ensure_future(f(1))
        await aio.sleep(0.2)          # returns with f(1) pending -> asyncio.run cancels it
    aio.run(main())


def thread_b():
    time.sleep(0.1)

    async def main():
        try:
            out['b'] = ('ok', await f(1))
        except BaseException as e:  # noqa
            out['b'] = ('exc', repr(e))
    aio.run(main())


ts = [threading.Thread(target=thread_a, name='A'), threading.Thread(target=thread_b, name='B')]
[t.start() for t in ts]; [t.join() for t in ts]
print('invocations by thread:', calls, ' outcome of B (never cancelled by anyone):', out)
bad = out.get('b', ('?',))[0] != 'ok'
print('REPRODUCED' if bad else 'not reproduced')
sys.exit(1 if bad else 0)
