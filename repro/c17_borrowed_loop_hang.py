#!/venv/bin/python
"""Real threads, real time: finding #8 (C17).  Two threads call ensure_aw on the
same idle target loop.  The first borrows the loop (runs it in a pool thread until
its awaitable completes); the second sees the loop running, schedules its awaitable
onto it with run_coroutine_threadsafe, and is stranded when the first's awaitable
completes and the loop stops.  Exit 1 if reproduced (second caller still pending
after 3 s although its awaitable needs 0.6 s)."""
import asyncio as aio, os, sys, threading, time
sys.path.insert(0, os.environ.get('VERIF_REPO', '/repo'))
from aiuti.asyncio import ensure_aw

target = aio.new_event_loop()
out = {}


async def work(tag, d):
    await aio.sleep(d)
    return tag


def caller(tag, start, d):
    async def main():
        await aio.sleep(start)
        out[tag] = await ensure_aw(work(tag, d), target)
    aio.run(main())


ts = [threading.Thread(target=caller, args=('first', 0, 0.4), daemon=True),
      threading.Thread(target=caller, args=('second', 0.2, 0.6), daemon=True)]
[t.start() for t in ts]
time.sleep(3)
print('completed:', out, ' target loop running:', target.is_running())
bad = 'second' not in out
print('REPRODUCED: the second ensure_aw call never completes' if bad else 'not reproduced')
os._exit(1 if bad else 0)
