#!/venv/bin/python
"""Real code, no threads needed: finding #6 (C02/C12).  `with FileLock(path, timeout=t)`
enters its body although the acquire timed out (another FileLock object holds the
lock file): two holders are inside the protected section at once.  Exit 1 if reproduced."""
import os, sys, tempfile
sys.path.insert(0, os.environ.get('VERIF_REPO', '/repo'))
from aiuti.filelock import FileLock

path = os.path.join(tempfile.mkdtemp(), 'l')
holder = FileLock(path)
assert holder.acquire()
entered = False
try:
    with FileLock(path, timeout=0.2) as second:
        entered = True
        print('second holder entered the with-block; second.is_locked =', second.is_locked,
              ' first.is_locked =', holder.is_locked)
except Exception as e:  # noqa
    print('with-statement raised', repr(e))
print('REPRODUCED' if entered else 'not reproduced')
sys.exit(1 if entered else 0)
