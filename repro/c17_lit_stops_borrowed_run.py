"""C17: loop_in_thread takes a run of the loop by an ensure_aw borrower for its own.

Real threads, real time.  A caller on its own loop awaits ensure_aw(coro, target) with the target idle, so the
helper runs the target in a pool thread until the coroutine finishes (0.5 s).  Meanwhile loop_in_thread(target) is
called: it returns at once (the loop "is running"), although its own thread is still waiting for the per-loop lock.
stop() then stops the *borrower's* run: the ensure_aw caller gets RuntimeError('Event loop stopped before Future
completed.') instead of its awaitable's result, the loop thread then runs forever and stop() never returns.

Exit 0: behaves as the property says.  Exit 1: defect reproduced.
"""
import asyncio
import os
import sys
import threading
import time

sys.path.insert(0, os.environ.get('VERIF_REPO', '/repo'))
from aiuti.asyncio import ensure_aw, loop_in_thread  # noqa: E402

target = asyncio.new_event_loop()
out = {}


async def work():
    await asyncio.sleep(0.5)
    return 'result'


def caller():
    async def main():
        try:
            out['caller'] = ('ok', await ensure_aw(work(), target))
        except BaseException as e:  # noqa
            out['caller'] = ('exc', repr(e))
    asyncio.run(main())


def starter():
    time.sleep(0.15)                      # the borrower is running the target now
    t0 = time.time()
    stop = loop_in_thread(target)
    out['lit_returned_after'] = round(time.time() - t0, 3)
    out['target_thread_at_return'] = 'borrower' if 'caller' not in out else 'own'
    stop()
    out['stop_returned'] = True


tc = threading.Thread(target=caller, daemon=True)
ts = threading.Thread(target=starter, daemon=True)
tc.start()
ts.start()
tc.join(5)
ts.join(5)
print(out)
bad = []
if out.get('caller') != ('ok', 'result'):
    bad.append('ensure_aw caller did not get its awaitable\'s result: %r' % (out.get('caller'),))
if not out.get('stop_returned'):
    bad.append('stop() did not return within 5 s')
for b in bad:
    print('DEFECT:', b)
os._exit(1 if bad else 0)
