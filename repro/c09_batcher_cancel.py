#!/venv/bin/python
"""Real event loop, real time: finding #3 (C09).  One caller of an
AsyncBackgroundBatcher gives up (wait_for timeout).  (a) A caller sharing its key
is cancelled too; (b) a bystander in the same batch receives InvalidStateError or
hangs forever.  Exit 1 if reproduced."""
import asyncio as aio, sys
sys.path.insert(0, __import__('os').environ.get('VERIF_REPO', '/repo'))
from aiuti.asyncio import AsyncBackgroundBatcher


async def bf(batch):
    await aio.sleep(0.2)
    for k, v in batch:
        yield k, v * 2


async def main():
    b = AsyncBackgroundBatcher(bf, batch_timeout=0.05)
    out = {}

    async def call(tag, arg, timeout=None):
        try:
            out[tag] = ('ok', await aio.wait_for(b(arg), timeout))
        except BaseException as e:  # noqa
            out[tag] = ('exc', repr(e))
    tasks = [aio.ensure_future(call('impatient', 1, timeout=0.1)),   # gives up while the batch is running
             aio.ensure_future(call('same-key', 1)),                 # shares key '1'
             aio.ensure_future(call('bystander', 2))]                # same batch, other key
    done, pending = await aio.wait(tasks, timeout=2)
    for t in pending:
        out.setdefault('hung', []).append(tasks.index(t))
        t.cancel()
    return out

out = aio.run(main())
print(out)
bad = out.get('same-key') != ('ok', 2) or out.get('bystander') != ('ok', 4)
print('REPRODUCED' if bad else 'not reproduced')
sys.exit(1 if bad else 0)
