#!/venv/bin/python
"""Real threads, real time, no simulation: finding #1 (C01 overlap + C06 KeyError).

Loop A's main returns with the computation pending (run_until_complete returns,
the loop is no longer running).  Before A's owner cancels the leftovers -- which
is what asyncio.run does next -- loop B calls the cached function, sees A's marker
with a non-running loop and takes over.  When A's leftover is then cancelled, its
finally-block deletes *B's* marker: a third caller starts a second, concurrent
invocation (C01), and B's own finally-block raises KeyError to its caller (C06).
Exit 1 if reproduced."""
import asyncio as aio, sys, threading, time
sys.path.insert(0, __import__('os').environ.get('VERIF_REPO', '/repo'))
from aiuti.asyncio import threadsafe_async_cache

live = []; max_live = 0; calls = 0


@threadsafe_async_cache
async def f(k):
    global max_live, calls
    calls += 1
    loop = aio.get_running_loop()
    live.append(loop)
    # an invocation pending on a loop that is not running counts as ended
    max_live = max(max_live, sum(1 for l in live if l.is_running()))
    try:
        await aio.sleep(0.6)
        return calls
    finally:
        live.remove(loop)


out = {}


def thread_a():
    loop = aio.new_event_loop()

    async def main():
        aio.ensure_future(f(1))
        await aio.sleep(0.05)
    loop.run_until_complete(main())          # returns with f(1) pending
    time.sleep(0.3)                          # ... owner is busy before shutting the loop down
    for t in aio.all_tasks(loop):            # what asyncio.run does on exit
        t.cancel()
    loop.run_until_complete(aio.sleep(0.01))
    loop.close()


def thread_b():
    time.sleep(0.15)                         # A's loop is stopped, its marker is dead -> take over

    async def main():
        async def c(tag, d):
            await aio.sleep(d)
            try:
                out[tag] = ('ok', await f(1))
            except BaseException as e:
                out[tag] = ('exc', repr(e))
        await aio.gather(c('b1', 0), c('b2', 0.4))   # b2 arrives after A deleted B's marker
    aio.run(main())


ts = [threading.Thread(target=thread_a), threading.Thread(target=thread_b)]
[t.start() for t in ts]; [t.join() for t in ts]
print('max concurrent invocations on running loops:', max_live, ' invocations:', calls, ' outcomes:', out)
bad = max_live > 1 or any(v[0] == 'exc' for v in out.values())
print('REPRODUCED' if bad else 'not reproduced')
sys.exit(1 if bad else 0)
