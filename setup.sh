#!/bin/sh
# Offline setup: make sure hypothesis is importable in /venv and atheris is available under /verif/.deps
cd "$(dirname "$0")" || exit 1
PY=/venv/bin/python
$PY -c 'import hypothesis' 2>/dev/null || $PY -m pip install -q --no-index --find-links /opt/veriftools/wheels hypothesis || exit 1
if ! PYTHONPATH=/verif/.deps $PY -c 'import atheris' 2>/dev/null; then
  $PY -m pip install -q --no-index --find-links /opt/veriftools/wheels --target /verif/.deps atheris || echo "warning: atheris not installed (C19 fuzz phase will be skipped and say so)"
fi
mkdir -p evidence replays
exit 0
